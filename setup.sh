#!/bin/sh
# Build the overlay virtualenv the checks run in (offline, from /venv and the wheelhouse).
# Idempotent; every check calls it through ./vcheck when .venv is missing.
set -e
cd "$(dirname "$0")"
V=.venv
if [ ! -x "$V/bin/python" ] || ! "$V/bin/python" -c "import z3, crosshair" >/dev/null 2>&1; then
    rm -rf "$V"
    /venv/bin/python -m venv "$V"
    SP=$("$V/bin/python" -c "import sysconfig; print(sysconfig.get_paths()['purelib'])")
    printf "import site; site.addsitedir('/venv/lib/python3.12/site-packages')\n/repo\n" > "$SP/base.pth"
    PIP_NO_INDEX=1 "$V/bin/pip" install -q --no-index --find-links /opt/veriftools/wheels crosshair-tool z3-solver >/dev/null
fi
"$V/bin/python" -c "import z3, crosshair, nsl, ply, wasmtime; print('verif venv ok: z3', z3.get_version_string())"
