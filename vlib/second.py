"""Second solver: unit-harness queries that z3 answered `unsat` are exported as SMT-LIB 2 and decided again by the cvc5
binary (DESIGN.md section 4, "Second solver").  A disagreement (cvc5 finds a model) is a harness error: nothing is claimed
for that instance.  Anything cvc5 cannot parse or decide within its time limit is counted as inconclusive (an `(error` line
is never read as agreement).  Enabled by VERIF_SECOND_SOLVER=1, which the thorough tier of the unit-level checks sets."""
import os
import shutil
import subprocess
import tempfile

CVC5 = shutil.which("cvc5")
TIMEOUT_S = 20


def enabled():
    return os.environ.get("VERIF_SECOND_SOLVER") == "1" and CVC5 is not None


def decide(smt2_text, timeout_s=TIMEOUT_S):
    """-> 'unsat' | 'sat' | 'inconclusive: <why>'"""
    if CVC5 is None:
        return "inconclusive: no cvc5 binary"
    text = smt2_text
    if "(set-logic" not in text:
        text = "(set-logic ALL)\n" + text
    fd, path = tempfile.mkstemp(suffix=".smt2", prefix="verif-second-")
    try:
        with os.fdopen(fd, "w") as f:
            f.write(text)
        try:
            r = subprocess.run([CVC5, "--lang=smt2", f"--tlimit={timeout_s * 1000}", path], capture_output=True, text=True, timeout=timeout_s + 10)
        except subprocess.TimeoutExpired:
            return "inconclusive: timeout"
        out = (r.stdout + "\n" + r.stderr).strip()
        if "(error" in out or "Parse Error" in out or "rror" in out.split("\n")[0:1].__repr__():
            return "inconclusive: " + out.splitlines()[0][:120] if out else "inconclusive: error"
        lines = [l.strip() for l in r.stdout.splitlines() if l.strip()]
        if lines and lines[0] == "unsat":
            return "unsat"
        if lines and lines[0] == "sat":
            return "sat"
        return "inconclusive: " + (lines[0][:80] if lines else "no answer")
    finally:
        try:
            os.remove(path)
        except OSError:
            pass
