"""Driver for unit harnesses: explore a harness function symbolically, ask z3 one
query per path, replay counterexamples concretely, attribute them to known
finding regions, run the negative twin.  See DESIGN.md section 4."""
import z3
from . import second
from fractions import Fraction
from . import symx
from .symx import Engine


def model_values(model):
    out = {}
    for d in model.decls():
        v = model[d]
        if v is None:
            continue
        if z3.is_int_value(v):
            out[str(d)] = v.as_long()
        elif z3.is_rational_value(v):
            out[str(d)] = str(Fraction(v.numerator_as_long(), v.denominator_as_long()))
        elif z3.is_true(v) or z3.is_false(v):
            out[str(d)] = bool(z3.is_true(v))
    return out


SECOND_PER_INSTANCE = 4      # queries per instance handed to the second solver (process start dominates its cost)


def as_bool(c):
    return c if z3.is_expr(c) else z3.BoolVal(bool(c))


def decide(fn, pre, good, *, inst, harness, replay, regions=(), twin=None, max_decisions=200,
           max_paths=4000, path_timeout=4.0, setup=None, around_replay=None, allow_cut=False, query_timeout_ms=20000):
    """fn() -> value (may hold proxies) ; good(value) -> z3 Bool / bool: the property on that path.
    An exception escaping fn on a feasible path is a violation candidate.
    regions: [{'id','what','pred': z3 Bool over the harness variables}] -- known findings; the
    property is asserted on the complement of all regions.
    replay(spec) -> observed discrepancy (truthy) or None."""
    eng = Engine(max_decisions=max_decisions, max_paths=max_paths, path_timeout=path_timeout)
    if setup:
        setup()
    paths = eng.explore(fn, pre)
    if any(p.kind == "timeout" for p in paths):
        # a loaded machine can make the per-path watchdog fire on an ordinary path: explore once more with a generous limit
        eng = Engine(max_decisions=max_decisions, max_paths=max_paths, path_timeout=path_timeout * 8)
        if setup:
            setup()
        paths = eng.explore(fn, pre)
    res = dict(paths=len(paths), cut=0, timeouts=0, queries=0, unsat=0, sat=0, undecided=0, violations=[],
               known=[], errors=[], nontrivial=False, sat_replayed=0)
    known_seen = set()
    twin_sat = False
    second_done = 0
    outside = z3.And(*[z3.Not(r["pred"]) for r in regions]) if regions else None
    for p in paths:
        if p.kind in ("cut", "timeout"):
            res["cut" if p.kind == "cut" else "timeouts"] += 1
            if not allow_cut and (eng.hard_truncated or not eng.soft_reasons):
                res["errors"].append(f"bound exceeded on a feasible path ({p.kind}); nothing claimed for {inst}")
            continue
        if p.kind == "exc":
            what = f"{type(p.value).__name__}: {p.value}"
            if "not modelled" in str(p.value) or isinstance(p.value, (NameError,)):
                res["errors"].append("proxy/shim gap: " + what)
                continue
            bad = z3.BoolVal(True)
        else:
            try:
                bad = z3.Not(as_bool(good(p.value)))
            except Exception as e:  # noqa: BLE001
                res["errors"].append(f"oracle failed: {type(e).__name__}: {e}")
                continue
            what = "property violated"
        full_bad = z3.And(bad, outside) if outside is not None else bad
        eng.keep_smt2 = second.enabled() and second_done < SECOND_PER_INSTANCE
        r, model = eng.query(pre, p.pc, full_bad, timeout_ms=query_timeout_ms)
        res["queries"] += 1
        if r == "unsat":
            res["unsat"] += 1
            res["nontrivial"] = True
            if eng.keep_smt2 and eng.last_smt2:
                # second solver (thorough tier): the same query, exported as SMT-LIB 2, decided by the cvc5 binary
                second_done += 1
                v2 = second.decide(eng.last_smt2)
                c = res.setdefault("counters", {})
                key = "second_solver_" + ("unsat" if v2 == "unsat" else "sat" if v2 == "sat" else "inconclusive")
                c[key] = c.get(key, 0) + 1
                if key.endswith("inconclusive"):
                    res.setdefault("notes", []).append("second solver " + v2[:100])
                if v2 == "sat":
                    res["errors"].append(f"the second solver (cvc5) finds a model for a query z3 answered unsat; nothing claimed for {inst}")
        elif r == "unknown":
            res["undecided"] += 1
        else:
            res["sat"] += 1
            vals = model_values(model)
            spec = dict(harness=harness, inst=inst, inputs=vals)
            obs = _replay(replay, spec, around_replay)
            if obs:
                res["sat_replayed"] += 1
                res["violations"].append(dict(what=f"{what}; inputs {vals}; observed {obs}", replay=spec))
            else:
                res["errors"].append(f"counterexample {vals} for {inst} did not reproduce concretely ({what})")
        # known-finding regions: does this path still contain a failing input inside a listed region?
        for reg in regions:
            if reg["id"] in known_seen:
                continue
            r3, m3 = eng.query(pre, p.pc, z3.And(bad, reg["pred"]), timeout_ms=query_timeout_ms)
            if r3 == "sat":
                vals = model_values(m3)
                obs = _replay(replay, dict(harness=harness, inst=inst, inputs=vals), around_replay)
                if obs:
                    known_seen.add(reg["id"])
                    res["known"].append(dict(id=reg["id"], what=reg["what"] + f" (e.g. {vals})"))
        if twin is not None and p.kind == "ok" and not twin_sat:
            r2, _ = eng.query(pre, p.pc, z3.Not(as_bool(twin(p.value))))
            if r2 == "sat":
                twin_sat = True
    if twin is not None and not twin_sat:
        res["errors"].append(f"negative twin of {inst} was not refuted (vacuous harness?)")
    if not paths:
        res["errors"].append(f"no feasible path for {inst} (vacuous)")
    if any(p.kind == "timeout" for p in paths) and eng.soft_reasons and not eng.hard_truncated:
        res.setdefault("notes", []).append("path watchdog fired; exploration incomplete: " + "; ".join(sorted(eng.soft_reasons)))
    if eng.truncated:
        cut_paths = [p for p in paths if p.kind == "cut"]
        if eng.hard_truncated or (cut_paths and not eng.soft_reasons):
            res["errors"].append("path budget exhausted")
        else:
            # the model of the engine is incomplete here (not a budget chosen too small): reported as cut, nothing claimed for the missing part
            res["cut"] = res.get("cut", 0) + 1
            res.setdefault("notes", []).append("exploration incomplete: " + "; ".join(sorted(eng.soft_reasons)))
    st = eng.stats()
    res["solver_time"] = st["solver_time_s"]
    res["feasibility_queries"] = st["feasibility_queries"]
    return res


def _replay(replay, spec, around):
    try:
        if around is not None:
            with around():
                return replay(spec)
        return replay(spec)
    except Exception as e:  # noqa: BLE001
        return None
