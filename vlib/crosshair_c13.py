"""CrossHair harnesses for the swizzle-mask part of C13 (symbolic `str`).

Run as:  crosshair check --report_all --per_condition_timeout T vlib/crosshair_c13.py:LINE
Only "Confirmed over all paths" counts as discharged; the twins must be refuted.
"""
from nsl import ast, types, Errors
from nsl.passes.ValidateSwizzle import ValidateSwizzleMask, ValidateSwizzleMaskVisitor


def spec_mask(mask: str) -> bool:
    """one letter set, no mixing"""
    a = all(c in "xyzw" for c in mask)
    b = all(c in "rgba" for c in mask)
    return a or b


def spec_visitor(mask: str, n: int) -> bool:
    """one letter set, no mixing, only components the vector has"""
    for letters in ("xyzw", "rgba"):
        if all(c in letters[:n] for c in mask):
            return True
    return False


def _run_mask(mask):
    try:
        ValidateSwizzleMask(mask)
        return True
    except Errors.CompileException:
        return False


def _run_visitor(mask, n):
    parent = ast.PrimaryExpression("v")
    parent.SetType(types.VectorType(types.Float(), n))
    e = ast.MemberAccessExpression(parent, ast.PrimaryExpression(mask))
    v = ValidateSwizzleMaskVisitor()
    h = Errors.ErrorHandler()
    v.SetErrorHandler(h)
    try:
        v.v_Visit(e, None)
    except Errors.CompileException:
        return False
    return bool(v.valid) and h.errors == 0


def check_mask(mask: str) -> bool:
    """
    pre: 1 <= len(mask) <= 4
    post: _ == spec_mask(mask)
    """
    return _run_mask(mask)


def check_visitor_n2_len1(mask: str) -> bool:
    """
    pre: len(mask) == 1
    post: _ == spec_visitor(mask, 2)
    """
    return _run_visitor(mask, 2)


def check_visitor_n2_len2(mask: str) -> bool:
    """
    pre: len(mask) == 2
    post: _ == spec_visitor(mask, 2)
    """
    return _run_visitor(mask, 2)


def check_visitor_n2_len3(mask: str) -> bool:
    """
    pre: len(mask) == 3
    post: _ == spec_visitor(mask, 2)
    """
    return _run_visitor(mask, 2)


def check_visitor_n2_len4(mask: str) -> bool:
    """
    pre: len(mask) == 4
    post: _ == spec_visitor(mask, 2)
    """
    return _run_visitor(mask, 2)


def check_visitor_n3_len1(mask: str) -> bool:
    """
    pre: len(mask) == 1
    post: _ == spec_visitor(mask, 3)
    """
    return _run_visitor(mask, 3)


def check_visitor_n3_len2(mask: str) -> bool:
    """
    pre: len(mask) == 2
    post: _ == spec_visitor(mask, 3)
    """
    return _run_visitor(mask, 3)


def check_visitor_n3_len3(mask: str) -> bool:
    """
    pre: len(mask) == 3
    post: _ == spec_visitor(mask, 3)
    """
    return _run_visitor(mask, 3)


def check_visitor_n3_len4(mask: str) -> bool:
    """
    pre: len(mask) == 4
    post: _ == spec_visitor(mask, 3)
    """
    return _run_visitor(mask, 3)


def check_visitor_n4_len1(mask: str) -> bool:
    """
    pre: len(mask) == 1
    post: _ == spec_visitor(mask, 4)
    """
    return _run_visitor(mask, 4)


def check_visitor_n4_len2(mask: str) -> bool:
    """
    pre: len(mask) == 2
    post: _ == spec_visitor(mask, 4)
    """
    return _run_visitor(mask, 4)


def check_visitor_n4_len3(mask: str) -> bool:
    """
    pre: len(mask) == 3
    post: _ == spec_visitor(mask, 4)
    """
    return _run_visitor(mask, 4)


def check_visitor_n4_len4(mask: str) -> bool:
    """
    pre: len(mask) == 4
    post: _ == spec_visitor(mask, 4)
    """
    return _run_visitor(mask, 4)


def twin_mask(mask: str) -> bool:
    """
    pre: 1 <= len(mask) <= 4
    post: False
    """
    return _run_mask(mask)


def twin_visitor(mask: str, n: int) -> bool:
    """
    pre: 1 <= len(mask) <= 4
    pre: 2 <= n <= 4
    post: False
    """
    return _run_visitor(mask, n)


def replay(fn, args):
    """Concrete re-execution of a CrossHair counterexample; returns the discrepancy or None."""
    if fn == "check_mask":
        (mask,) = args
        got, want = _run_mask(mask), spec_mask(mask)
    elif fn.startswith("check_visitor_n"):
        (mask,) = args
        n = int(fn[len("check_visitor_n")])
        got, want = _run_visitor(mask, n), spec_visitor(mask, n)
    else:
        return None
    return None if got == want else dict(args=list(args), accepted=got, rule_says=want)
