"""C03 -- calls pass arguments by value into isolated frames and reach the chosen overload.

Translation validation per program over family F3 (call graphs): the reference interpreter
(fresh frame per activation, callee chosen by the overload rule O3) against the real front
end, lowering (mangled names, argument casts) and the real VM (CALL, _Invoke, argument
loads/stores) on symbolic arguments."""
from .. import core
from ..gen import f3
from . import famcheck

PID = "C03"


def family(tier, seed):
    items = f3.all_templates()
    items += f3.random_calls(seed, 60 if tier == "quick" else 1200, depth=2 if tier == "quick" else 3)
    return items


def run_instance(inst):
    return famcheck.run_item(inst, harness="C03")


def replay(spec):
    return famcheck.replay(spec)


def run(tier, seed, only=None):
    chk = core.Check(PID, "translation_validation", tier, seed,
                     rule="one program (call graph) per instance; arguments symbolic. Distinct = distinct source text; non-trivial = compiled, >= 1 joint path "
                          "reached the comparison and its query was discharged")
    items = family(tier, seed)
    if only:
        items = [i for i in items if only in i.name or only in i.tags]
    famcheck.describe(chk, items, tier)
    chk.bounds.update({"family": "F3: %d templates (read positions after a call x callee shapes x definition order; nesting; recursion depth <= 4; overloads; vector/matrix "
                                 "arguments written in the callee) + %d random programs with 1-2 helper functions" % (len(f3.all_templates()), len(items) - len(f3.all_templates())),
                       "outside": "recursion deeper than 4; array/struct arguments (passed by reference at the host boundary); optional parameters"})
    famcheck.o1_selftest(chk)
    results = core.run_pool("vlib.harness.C03", "run_instance", [famcheck.pack(i) for i in items])
    famcheck.dedupe(results)
    chk.absorb_all(results)
    chk.funcs.update(["nsl.passes.LowerToIR.LowerToIRVisitor.v_CallExpression", "nsl.types.Function.GetMangledName", "nsl.passes.AddImplicitCasts.AddImplicitCastVisitor.v_CallExpression",
                      "nsl.VM.ExecutionContext._Invoke", "nsl.types.Scope.FindFunction"])
    return chk.finish()
