"""C16 -- separately compiled, imported and linked modules behave like one program.

Programs of 2-5 functions are partitioned into 1-4 modules along every import DAG the call
graph induces (chain, fork, diamond, import not in first position, extra unrelated modules),
each module is compiled by the real driver (nslc.py, child process, dependency order) into a
scratch directory and the program is linked by the real Linker through the real
FilesystemModuleLoader.  Gates (concrete): every imported module is loaded exactly once; the
linked function table is the same for every order of AddModule; duplicate definitions are
rejected.  Query (solver): the linked multi-module program and the single-module compilation
of the same functions agree on the real VM for every input (differential, per joint path).
"""
import io
import os
import sys
import shutil
import tempfile
import itertools
import pickle
import subprocess
import contextlib
from .. import core
from ..nslref import joint
from ..nslref.parse import parse
from . import famcheck, diffcheck

PID = "C16"
PY = "/venv/bin/python"

# ----------------------------------------------------------------------------- program bases: name -> (text, callees)
BASES = {
    "calls": dict(
        funcs={
            "k": ("function k(int x) -> int { x = x * 2; return x + 1; }", []),
            "h": ("function h(int x, int y) -> int { return k(x) - y; }", ["k"]),
            "g": ("function g(int x) -> int { int t = h(x, 3); x = x + 1; return t + k(x); }", ["h", "k"]),
        },
        entry=("export function f(int a, int b) -> int { return g(a) * 100 + h(b, a) * 10 + k(a) + a; }", ["g", "h", "k"]),
        sig="int a, int b"),
    "exported": dict(
        funcs={
            "k": ("export function k(float x) -> float { return x * 0.5; }", []),
            "h": ("export function h(float x) -> float { return k(x) + 1.0; }", ["k"]),
            "g": ("export function g(int n, float x) -> float { float s = x; for (int i = 0; i < n; ++i) { s = h(s); } return s; }", ["h"]),
        },
        entry=("export function f(float a, int n) -> float { return g(n, a) + k(a); }", ["g", "k"]),
        sig="float a, int n", bounds={"n": (0, 3)}),
    "overloads": dict(
        funcs={
            "k": ("function o(int x) -> int { return x + 1000; }", []),
            "h": ("function o(float x) -> float { return x + 2000.0; }", []),
            "g": ("function g(int x, float y) -> float { return o(x) + o(y); }", ["k", "h"]),
        },
        entry=("export function f(int a, float b) -> float { return g(a, b) + o(a) * 2 + o(b) * 4.0; }", ["g", "k", "h"]),
        sig="int a, float b"),
    "vectors": dict(
        funcs={
            "k": ("function k(float3 v) -> float3 { v.x = v.y; return v * 2.0; }", []),
            "h": ("function h(float3 v, float s) -> float { float3 w = k(v); return w.x + w.z * s; }", ["k"]),
            "g": ("function g(float3 v) -> float3 { return k(v) + v; }", ["k"]),
        },
        entry=("export function f(float3 a, float s) -> float3 { float3 r = g(a); r.y = h(a, s); return r + a; }", ["g", "h"]),
        sig="float3 a, float s"),
}
BASES["state"] = dict(
    funcs={
        "k": ("int cnt;\nfunction k(int x) -> int { cnt = cnt + x; return cnt; }", []),
        "h": ("function h(int x) -> int { int r = k(x); return r + k(1); }", ["k"]),
        "g": ("float acc;\nfunction g(int x) -> int { acc = acc + x; if (acc > 10.0) { acc = 0.0; return k(x) + 1; } return k(0 - x); }", ["k"]),
    },
    entry=("export function f(int a, int b) -> int { int r = g(a) * 100 + h(b) * 10; return r + k(0); }", ["g", "h", "k"]),
    sig="int a, int b")
BASES["structs"] = dict(
    funcs={
        "k": ("struct P { float x; int n; }\nfunction k(float a, int n) -> P { P p; p.x = a; p.n = n; return p; }", []),
        "h": ("function h(float a) -> float { P p = k(a, 2); return p.x * p.n; }", ["k"]),
        "g": ("function g(float a) -> float { P p = k(a, 3); P q = p; q.x = h(a); return p.x + q.x * q.n; }", ["k", "h"]),
    },
    entry=("export function f(float a) -> float { P p = k(a, 1); return g(a) + h(a) + p.x; }", ["g", "h", "k"]),
    sig="float a")
MODULE_NAMES = ["ma", "mb", "mc"]


def partitions():
    """assignments of k, h, g to main (0) or one of three library modules, canonical up to renaming of libraries"""
    seen, out = set(), []
    for assign in itertools.product(range(4), repeat=3):
        ren, nxt, canon = {0: 0}, 1, []
        for a in assign:
            if a not in ren:
                ren[a] = nxt
                nxt += 1
            canon.append(ren[a])
        t = tuple(canon)
        if t not in seen:
            seen.add(t)
            out.append(t)
    return out


def build_modules(base, assign, import_pos="first", import_order="sorted"):
    """-> (list of (module name, source text, imports) in dependency order ending with main, single-module source)"""
    b = BASES[base]
    names = ["k", "h", "g"]
    where = dict(zip(names, assign))          # 0 = main, 1..3 = libraries
    mods = {}
    for n in names:
        mods.setdefault(where[n], []).append(n)
    mods.setdefault(0, [])

    def module_name(i):
        return "main" if i == 0 else MODULE_NAMES[i - 1]

    def deps(i):
        d = []
        texts = [b["funcs"][n] for n in mods[i]] + ([b["entry"]] if i == 0 else [])
        for _, callees in texts:
            for c in callees:
                if where[c] != i and where[c] not in d:
                    d.append(where[c])
        return d
    out = []
    # dependency order: a module after everything it imports (call graph of the bases is acyclic over k <- h <- g <- f; a partition may still create a module cycle)
    order, todo = [], sorted(mods)
    for _ in range(len(todo) + 1):
        for i in list(todo):
            if all(d in order for d in deps(i)):
                order.append(i)
                todo.remove(i)
    if todo:
        return None, None        # cyclic module graph: modules cannot be compiled separately
    for i in order:
        ds = deps(i)
        if import_order == "reversed":
            ds = list(reversed(ds))
        imports = [f'import "{module_name(d)}";' for d in ds]
        fn_texts = [b["funcs"][n][0] for n in mods[i]] + ([b["entry"][0]] if i == 0 else [])
        if import_pos == "first" or not imports or not fn_texts:
            text = "\n".join(imports + fn_texts)
        elif import_pos == "after-first":
            text = "\n".join(fn_texts[:1] + imports + fn_texts[1:])
        else:   # interleaved: one import, one function, ...
            parts = []
            for j in range(max(len(imports), len(fn_texts))):
                if j < len(imports):
                    parts.append(imports[j])
                if j < len(fn_texts):
                    parts.append(fn_texts[j])
            text = "\n".join(parts)
        out.append((module_name(i), text + "\n", [module_name(d) for d in ds]))
    single = "\n".join([b["funcs"][n][0] for n in names] + [b["entry"][0]]) + "\n"
    return out, single


EXTRA = {"e1": "export function extra1(int x) -> int { return x + 1; }\n", "e2": "export function extra2(float x) -> float { return x * 2.0; }\nfunction helper2(int x) -> int { return x; }\n"}


class CountingLoader:
    def __init__(self):
        from nsl import LinearIR
        self.inner = LinearIR.FilesystemModuleLoader()
        self.loads = []

    def Load(self, name):
        self.loads.append(str(name))
        return self.inner.Load(name)


def nslc(src_name, out_name, cwd):
    r = subprocess.run([PY, os.path.join(core.REPO, "nslc.py"), src_name, "-o", out_name], cwd=cwd, capture_output=True, text=True, timeout=120,
                       env=dict(os.environ, PYTHONPATH=core.REPO, PYTHONDONTWRITEBYTECODE="1"))
    ok = r.returncode == 0 and os.path.exists(os.path.join(cwd, out_name)) and os.path.getsize(os.path.join(cwd, out_name)) > 0
    return ok, (r.stdout + r.stderr)[-400:]


@contextlib.contextmanager
def chdir(path):
    old = os.getcwd()
    os.chdir(path)
    try:
        yield
    finally:
        os.chdir(old)


def link_variant(tmp, added, loader=None):
    """AddModule for the named modules in order, then Link; -> (program, loader)"""
    from nsl import LinearIR
    loader = loader or CountingLoader()
    lk = LinearIR.Linker(loader=loader)
    fs = LinearIR.FilesystemModuleLoader()
    with chdir(tmp), contextlib.redirect_stdout(io.StringIO()):
        for name in added:
            lk.AddModule(fs.Load(name))
        prog = lk.Link()
    return prog, loader


def compile_all(tmp, modules, extras=()):
    for name, text, _ in modules:
        with open(os.path.join(tmp, name + ".nsl"), "w") as f:
            f.write(text)
        ok, out = nslc(name + ".nsl", name + ".nslir", tmp)
        if not ok:
            return f"module '{name}' does not compile separately: {out}"
    for e in extras:
        with open(os.path.join(tmp, e + ".nsl"), "w") as f:
            f.write(EXTRA[e])
        ok, out = nslc(e + ".nsl", e + ".nslir", tmp)
        if not ok:
            return f"extra module '{e}' does not compile: {out}"
    return None


REBUILD_LIBS = [
    "int calls;\nfunction weight(int x) -> int { return x * 2; }\nexport function scale(int x) -> int { calls = calls + 1; return weight(x) + 1; }\nexport function count() -> int { return calls; }\n",
    "int calls;\nfunction weight(int x) -> int { return x * 3; }\nexport function scale(int x) -> int { calls = calls + 1; return weight(x) + 5; }\nexport function count() -> int { return calls; }\n",
    "int calls;\nfunction weight(int x) -> int { return x * 2; }\nexport function scale(int x) -> int { calls = calls + 1; return weight(x) + 1; }\nexport function count() -> int { return calls; }\n",
    "int calls;\nfunction weight(int x) -> int { return x - 4; }\nexport function scale(int x) -> int { calls = calls + 2; return weight(x) * 2; }\nexport function twice(int x) -> int { return scale(x) + scale(x); }\nexport function count() -> int { return calls * 3; }\n",
]
REBUILD_MAIN = "export function f(int a, int b) -> int { int r = scale(a) - scale(b) * 2; return r * 10 + count(); }\n"


REBUILD_STRUCT_LIBS = [
    "struct P { float x; float w; }\nfunction scale(P p) -> float { return p.x * 2 + p.w; }\n",
    "struct P { int x; float w; }\nfunction scale(P p) -> float { return p.x / 2 + p.w; }\n",
    "struct P { float x; int w; }\nfunction scale(P p) -> float { return p.x / 2 + p.w / 2; }\n",
    "struct P { int x; int w; int k; }\nfunction scale(P p) -> float { return p.x / 2 + p.w + p.k * 0.5; }\n",
]
REBUILD_STRUCT_MAIN = "export function f(int a, int b) -> float { P p; p.x = a; p.w = b; return scale(p) + p.x / 4; }\n"


def run_rebuild(inst, res):
    """a library module is edited and built again under the same file name, and the program is linked again in this (one) process:
    every build must behave like the single-module program made from the sources of that build"""
    tmp = tempfile.mkdtemp(prefix="verif-c16r-")
    res["sample"] = dict(kind="rebuild", generations=len(REBUILD_LIBS), how=inst["how"])
    try:
        libs, main_text = (REBUILD_STRUCT_LIBS, REBUILD_STRUCT_MAIN) if inst.get("series") == "structs" else (REBUILD_LIBS, REBUILD_MAIN)
        for gen, lib in enumerate(libs):
            single = lib + main_text
            modules = [("lib", lib, ()), ("main", 'import "lib";\n' + main_text, ("lib",))]
            if inst["how"] == "child":
                err = compile_all(tmp, modules)
                if err:
                    res["violations"].append(dict(what=f"generation {gen}: {err}", replay=dict(harness="C16", inst=inst, kind="rebuild")))
                    return res
            else:
                # compiled and stored by this process (a build tool that keeps running), imports resolved relative to the directory
                with chdir(tmp), contextlib.redirect_stdout(io.StringIO()):
                    for name, text, _ in modules:
                        mod = joint.compile_source(text)
                        with open(name + ".nslir", "wb") as f:
                            pickle.dump(mod.IRModule, f)
            try:
                linked, _ = link_variant(tmp, ["main"])
            except Exception as e:  # noqa: BLE001
                res["violations"].append(dict(what=f"generation {gen} of the library: linking fails: {type(e).__name__}: {str(e)[:120]}", replay=dict(harness="C16", inst=inst, kind="rebuild")))
                return res
            ref = joint.link(joint.compile_source(single))
            prog = parse(single)
            r = diffcheck.check_pair(prog, "f", ref, linked, harness="C16", inst=inst, extra_pre=famcheck.make_pre(dict(bounds={}, small=True)), label=("single-module", "linked after rebuilding the library"),
                                     replay_fn=lambda vals: diffcheck.concrete_pair(prog, "f", ref, linked, vals, label=("single-module", "linked after rebuilding the library")))
            for k in ("paths", "queries", "unsat", "sat", "undecided", "cut", "solver_time"):
                res[k] += r[k]
            for v in r["violations"]:
                v["what"] = f"generation {gen} of the library (same file name, same process): " + v["what"]
                v["replay"] = dict(harness="C16", inst=inst, kind="rebuild")
            res["violations"] += r["violations"]
            res["errors"] += r["errors"]
            res["nontrivial"] = res["nontrivial"] or r["nontrivial"]
            if r["violations"]:
                break
    except joint.Rejected as e:
        res["errors"].append(f"rebuild program rejected: {e}")
    finally:
        shutil.rmtree(tmp, ignore_errors=True)
    return res


def run_instance(inst):
    res = dict(paths=0, queries=0, unsat=0, sat=0, undecided=0, cut=0, violations=[], errors=[], nontrivial=False, known=[], solver_time=0.0)
    res["key"] = repr(sorted(inst.items()))
    res["funcs"] = FUNCS
    kind = inst.get("kind", "partition")
    if kind == "duplicate":
        return run_duplicate(inst, res)
    if kind == "rebuild":
        return run_rebuild(inst, res)
    modules, single = build_modules(inst["base"], tuple(inst["assign"]), inst.get("import_pos", "first"), inst.get("import_order", "sorted"))
    res["sample"] = dict(base=inst["base"], assign=inst["assign"], import_pos=inst.get("import_pos"), modules=[(n, t[:200]) for n, t, _ in (modules or [])])
    if modules is None:
        res.setdefault("notes", []).append("partition creates a cyclic module graph; skipped")
        return res
    b = BASES[inst["base"]]
    tmp = tempfile.mkdtemp(prefix="verif-c16-")
    try:
        err = compile_all(tmp, modules, inst.get("extras", ()))
        if err:
            res["violations"].append(dict(what=err, replay=dict(harness="C16", inst=inst, kind="compile")))
            return res
        ref = joint.link(joint.compile_source(single))
        prog = parse(single)
        imported = sorted({d for _, _, ds in modules for d in ds})
        orders = [["main"]]
        if inst.get("extras"):
            orders = [list(p) for p in itertools.permutations(["main"] + list(inst["extras"]))]
        keysets = []
        first = None
        for order in orders:
            try:
                linked, loader = link_variant(tmp, order)
            except Exception as e:  # noqa: BLE001
                res["violations"].append(dict(what=f"linking fails for the AddModule order {order}: {type(e).__name__}: {str(e)[:120]}", replay=dict(harness="C16", inst=inst, kind="link", order=order)))
                continue
            counts = {m: loader.loads.count(m) for m in imported}
            bad = {m: c for m, c in counts.items() if c != 1}
            unexpected = [m for m in loader.loads if m not in imported]
            if bad or unexpected:
                res["violations"].append(dict(what=f"imported modules are not loaded exactly once for the AddModule order {order}: load counts {counts}, other loads {unexpected}",
                                              replay=dict(harness="C16", inst=inst, kind="loads", order=order)))
            keysets.append((order, sorted(linked.Functions.keys()), sorted(linked.Globals.keys())))
            if first is None:
                first = linked
        # a linker that is asked twice: modules added after a first Link() must show up in the second one (and nothing may get lost)
        if inst.get("extras"):
            try:
                from nsl import LinearIR
                ld = CountingLoader()
                lk = LinearIR.Linker(loader=ld)
                fs = LinearIR.FilesystemModuleLoader()
                with chdir(tmp), contextlib.redirect_stdout(io.StringIO()):
                    lk.AddModule(fs.Load("main"))
                    p1 = lk.Link()
                    k1 = sorted(p1.Functions.keys())
                    for e in inst["extras"]:
                        lk.AddModule(fs.Load(e))
                    p2 = lk.Link()
                k2 = sorted(p2.Functions.keys())
                full = keysets[0][1] if keysets else None
                if full is not None and k2 != full:
                    res["violations"].append(dict(what=f"Link() after further AddModule calls returns {k2}, but linking the same modules in one go gives {full} (first Link: {k1})",
                                                  replay=dict(harness="C16", inst=inst, kind="incremental")))
                bad2 = {m: ld.loads.count(m) for m in imported if ld.loads.count(m) != 1}
                if bad2:
                    res["violations"].append(dict(what=f"linking twice loads imported modules {bad2} times", replay=dict(harness="C16", inst=inst, kind="incremental")))
            except Exception as e:  # noqa: BLE001
                res["violations"].append(dict(what=f"Link() twice on one linker fails: {type(e).__name__}: {str(e)[:120]}", replay=dict(harness="C16", inst=inst, kind="incremental")))
        if len({(tuple(k), tuple(g)) for _, k, g in keysets}) > 1:
            res["violations"].append(dict(what=f"the linked program depends on the order of AddModule: {keysets[:3]}", replay=dict(harness="C16", inst=inst, kind="order")))
        if first is None:
            return res
        want = set(ref.Functions.keys())
        got = set(first.Functions.keys()) - {"extra1", "extra2"} - {k for k in first.Functions if "helper2" in k}
        if want != got:
            res["violations"].append(dict(what=f"the linked program's function table {sorted(got)} differs from the single-module program's {sorted(want)}", replay=dict(harness="C16", inst=inst, kind="table")))
            return res
        # the command-line runner: nslr.py loads main.nslir from the scratch directory, links it (loading the imports) and runs f;
        # its printed result on a few concrete argument lists must be the single-module program's (concrete gate)
        nr = nslr_gate(tmp, prog, ref, b)
        if nr:
            res["violations"].append(dict(what=f"nslr.py run main.nslir f ... disagrees with the single-module program: {nr}", replay=dict(harness="C16", inst=inst, kind="nslr")))
        pre_inst = dict(inst, bounds=b.get("bounds", {}), small=True)
        r = diffcheck.check_pair(prog, "f", ref, first, harness="C16", inst=inst, extra_pre=famcheck.make_pre(pre_inst), label=("single-module", "linked"),
                                 replay_fn=lambda vals: replay(dict(inst=inst, kind="values", inputs=vals)))
        for k in ("paths", "queries", "unsat", "sat", "undecided", "cut", "solver_time"):
            res[k] += r[k]
        res["violations"] += r["violations"]
        res["errors"] += r["errors"]
        res["nontrivial"] = r["nontrivial"]
        res["counters"] = dict(modules_compiled=len(modules) + len(inst.get("extras", ())), link_orders=len(orders), imports=len(imported))
    finally:
        shutil.rmtree(tmp, ignore_errors=True)
    return res


def nslr_gate(tmp, prog, ref_linked, base):
    """-> description of a disagreement or None.  Only scalar signatures can be passed on the command line."""
    f = [x for x in prog.funcs if x.name == "f" and x.exported][0]
    if any(t not in ("int", "float") for t, _ in f.params) or prog.globals:
        return None
    from nsl import VM
    for k, vals in enumerate(([2, 3, 1], [0, 1, 2])):
        args = {}
        for (t, n), v in zip(f.params, vals):
            if n in base.get("bounds", {}):
                lo, hi = base["bounds"][n]
                v = max(lo, min(hi, v))
            args[n] = v if t == "int" else v + 0.5
        r = subprocess.run([PY, os.path.join(core.REPO, "nslr.py"), "run", "main.nslir", "f"] + [str(args[n]) for _, n in f.params], cwd=tmp, capture_output=True, text=True, timeout=120,
                           env=dict(os.environ, PYTHONPATH=core.REPO, PYTHONDONTWRITEBYTECODE="1"))
        with contextlib.redirect_stdout(io.StringIO()):
            want = VM.VirtualMachine(ref_linked).Invoke("f", **args)
        line = [l for l in r.stdout.splitlines() if l.startswith("f (")]
        if r.returncode != 0 or not line:
            return dict(args=args, nslr_exit=r.returncode, output=(r.stdout + r.stderr)[-200:])
        got = line[-1].split("=", 1)[1].strip()
        try:
            same = abs(float(got) - float(want)) <= 1e-9 * max(1.0, abs(float(want)))
        except ValueError:
            same = got == str(want)
        if not same:
            return dict(args=args, nslr=got, single_module=want)
    return None


DUPLICATES = {
    "function in two added modules": (("ma", "export function d(int x) -> int { return 1; }\n"), ("mb", "export function d(int x) -> int { return 2; }\n"), None),
    "function in main and imported module": (("ma", "export function d(int x) -> int { return 1; }\n"), None, 'import "ma";\nexport function d(int x) -> int { return 2; }\nexport function f(int a) -> int { return d(a); }\n'),
    "global in two added modules": (("ma", "int gg;\nexport function d1(int x) -> int { gg = x; return gg; }\n"), ("mb", "float gg;\nexport function d2(int x) -> int { return x; }\n"), None),
    "non-exported function in two added modules": (("ma", "function d(int x) -> int { return 1; }\nexport function a1(int x) -> int { return d(x); }\n"),
                                                   ("mb", "function d(int x) -> int { return 2; }\nexport function a2(int x) -> int { return d(x); }\n"), None),
}


def run_duplicate(inst, res):
    """two definitions of the same function / global must be rejected, in either order, not silently replaced"""
    a, b, main = DUPLICATES[inst["case"]]
    res["sample"] = dict(case=inst["case"])
    tmp = tempfile.mkdtemp(prefix="verif-c16-")
    try:
        names = []
        for m in (a, b):
            if m:
                open(os.path.join(tmp, m[0] + ".nsl"), "w").write(m[1])
                ok, out = nslc(m[0] + ".nsl", m[0] + ".nslir", tmp)
                if not ok:
                    res["errors"].append(f"duplicate-case module does not compile: {out}")
                    return res
                names.append(m[0])
        if main:
            open(os.path.join(tmp, "main.nsl"), "w").write(main)
            ok, out = nslc("main.nsl", "main.nslir", tmp)
            if not ok:
                res["nontrivial"] = True          # rejected at compile time already: fine
                res["counters"] = dict(duplicates_rejected=1)
                return res
            orders = [["main"]]
        else:
            orders = [names, list(reversed(names))]
        for order in orders:
            try:
                linked, _ = link_variant(tmp, order)
            except Exception:  # noqa: BLE001 -- rejected
                res.setdefault("counters", {}).setdefault("duplicates_rejected", 0)
                res["counters"]["duplicates_rejected"] += 1
                res["nontrivial"] = True
                continue
            res["violations"].append(dict(what=f"duplicate definition ({inst['case']}) is linked without an error for the order {order}: functions {sorted(linked.Functions)}, globals {sorted(linked.Globals)}",
                                          replay=dict(harness="C16", inst=inst, kind="duplicate", order=order)))
    finally:
        shutil.rmtree(tmp, ignore_errors=True)
    return res


FUNCS = ["nslc.py (child process per module)", "nsl.parser.NslParser.p_import_statement", "nsl.parser.NslParser.p_module_7", "nsl.parser.NslParser.p_module_8",
         "nsl.passes.ComputeTypes.ComputeTypeVisitor.v_Module", "nsl.passes.LowerToIR.LowerToIRVisitor.v_Module", "nsl.LinearIR.Linker.AddModule", "nsl.LinearIR.Linker.Link",
         "nsl.LinearIR.FilesystemModuleLoader.Load", "nsl.VM.VirtualMachine.Invoke"]


def replay(spec):
    inst = spec["inst"]
    kind = spec.get("kind")
    if kind == "values":
        modules, single = build_modules(inst["base"], tuple(inst["assign"]), inst.get("import_pos", "first"), inst.get("import_order", "sorted"))
        tmp = tempfile.mkdtemp(prefix="verif-c16-")
        try:
            if compile_all(tmp, modules, inst.get("extras", ())):
                return None
            linked, _ = link_variant(tmp, ["main"])
            ref = joint.link(joint.compile_source(single))
            return diffcheck.concrete_pair(parse(single), "f", ref, linked, spec.get("inputs", {}), label=("single-module", "linked"))
        except Exception:  # noqa: BLE001
            return None
        finally:
            shutil.rmtree(tmp, ignore_errors=True)
    # structural kinds: re-run the instance and report whether a violation of that kind is still produced
    r = run_instance(inst)
    hits = [v["what"] for v in r["violations"] if v["replay"].get("kind") == kind]
    return dict(violations=hits[:2]) if hits else None


def instances(tier, seed):
    out = []
    parts = partitions()
    bases = list(BASES)
    for bi, base in enumerate(bases):
        for pi, assign in enumerate(parts):
            if build_modules(base, assign)[0] is None:
                continue            # the partition would need cyclic imports
            out.append(dict(base=base, assign=list(assign), import_pos="first"))
    for assign in parts:
        if sum(1 for a in assign if a) == 0 or build_modules("calls", assign)[0] is None:
            continue
        out.append(dict(base="calls", assign=list(assign), import_pos="after-first"))
        if tier == "thorough":
            out.append(dict(base="calls", assign=list(assign), import_pos="interleaved", import_order="reversed"))
            out.append(dict(base="exported", assign=list(assign), import_pos="after-first", import_order="reversed"))
    for assign in ([1, 1, 0], [1, 2, 3], [1, 2, 2], [0, 0, 0]):
        out.append(dict(base="calls", assign=assign, import_pos="first", extras=["e1", "e2"]))
    for case in DUPLICATES:
        out.append(dict(kind="duplicate", case=case))
    out.append(dict(kind="rebuild", how="child"))
    out.append(dict(kind="rebuild", how="in-process"))
    out.append(dict(kind="rebuild", how="child", series="structs"))
    out.append(dict(kind="rebuild", how="in-process", series="structs"))
    return out


def run(tier, seed, only=None):
    chk = core.Check(PID, "translation_validation", tier, seed,
                     rule="one (program base, partition of its functions into modules, import placement, AddModule orders) per instance; arguments symbolic. Distinct = distinct "
                          "instance description; non-trivial = all modules compiled separately, gates passed and >= 1 differential query discharged (or, for duplicate cases, the duplicate was rejected)")
    insts = instances(tier, seed)
    if only:
        insts = [i for i in insts if only in repr(i)]
    chk.assumptions = ["z3 Int/Real model of Python int/float", "the single-module compilation of the same functions is the reference"]
    chk.shims = ["nsl.VM.float", "nsl.VM.int"]
    chk.bounds = {"programs": "%d bases of 4 functions (call chain k <- h <- g <- f with extra edges; exported helpers with a loop; overloads split over modules; vector arguments)" % len(BASES),
                  "partitions": "every assignment of the three helpers to main or one of three libraries (15 up to renaming): chain, fork, diamond, everything in one library",
                  "imports": "first position / after the first function / interleaved, both import orders", "link_orders": "all orders of AddModule over main + 2 unrelated modules",
                  "duplicates": list(DUPLICATES), "outside": "more than 4 modules; cyclic imports; file-system races; imported globals referenced by the importer"}
    results = core.run_pool("vlib.harness.C16", "run_instance", insts)
    famcheck.dedupe(results)
    chk.absorb_all(results)
    return chk.finish()
