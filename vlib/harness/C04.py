"""C04 -- vectors and matrices are values: component ops, swizzles, copies.

Translation validation per program over family F4 (generated exhaustively from tables): all
components, scalars and dynamic indices are symbolic; the reference interpreter's vector
semantics against the real typing, lowering (shuffles, VECTOR_SET / MATRIX_SET, per-row
matrix lowering) and VM."""
from .. import core
from ..gen import f4, f4r
from . import famcheck

PID = "C04"


def run_instance(inst):
    return famcheck.run_item(inst, harness="C04", max_paths=300)


def replay(spec):
    return famcheck.replay(spec)


def run(tier, seed, only=None):
    chk = core.Check(PID, "translation_validation", tier, seed,
                     rule="one program per (type, operation / mask / index form); components, scalars and dynamic indices symbolic. Distinct = distinct source text; "
                          "non-trivial = compiled, >= 1 joint path reached the component-wise comparison and its query was discharged")
    items = f4.family(tier) + f4r.generate(seed, 120 if tier == "quick" else 2000, depth=2 if tier == "quick" else 3)
    if only:
        items = [i for i in items if only in i.name or only in i.tags]
    famcheck.describe(chk, items, tier)
    chk.bounds.update({"family": "F4: constructors in every split; + - and the six comparisons on all vector types; scaling (both orders); matrix + - *, matrix * vector (3x3, 4x4); v[i], m[i], m[i][j] constant and dynamic; "
                                 "every swizzle read mask of length 1-4 (quick: float xyzw complete, int / rgba up to length 2; thorough: all), every non-repeating write mask; element and "
                                 "row writes; copies then writes; plus VERIF_SEED-generated random programs composing these operations (120 quick / 2000 thorough)",
                       "outside": "uint vectors; non-square matrices (not spellable); rounding"})
    famcheck.o1_selftest(chk)
    results = core.run_pool("vlib.harness.C04", "run_instance", [famcheck.pack(i) for i in items])
    famcheck.dedupe(results)
    chk.absorb_all(results)
    chk.funcs.update(["nsl.passes.LowerToIR.LowerToIRVisitor.v_MemberAccessExpression", "nsl.passes.LowerToIR.LowerToIRVisitor.v_ArrayExpression",
                      "nsl.passes.LowerToIR.LowerToIRVisitor.v_BinaryExpression", "nsl.passes.LowerToIR.LowerToIRVisitor.v_ConstructPrimitiveExpression",
                      "nsl.passes.ComputeTypes.ComputeSwizzleType", "nsl.VM.ExecutionContext.__MatrixMatrixMultiply"])
    return chk.finish()
