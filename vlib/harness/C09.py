"""C09 -- operator typing: accepted operand combinations, result type, conversions.

Harness A (typing interface, solver over sizes): for every operator x kind pair x component
pair the real ResolveBinaryExpressionType and AddImplicitCastVisitor.v_BinaryExpression run on
real type objects whose vector sizes / matrix shapes are symbolic (1..4).  Observed: reject /
result type / operand types after cast insertion; z3 compares with the table O3
(vlib/spec_types.binary_spec) for all sizes.
Harness B (end to end): all 13 x 14 x 14 programs `function f(L a, R b) -> T { return a OP b; }`
over the spellable types: accept/reject and the static type of the returned value against O3
(concrete gate + replay channel); operand values on symbolic inputs are checked in C01/C04.
"""
import io
import contextlib
import itertools
import z3
from .. import symx, core, unit, spec_types as O3
from ..symx import SymNum
from .C10 import _mk_type, _subst, _vars, _tup

PID = "C09"
OPSTR = O3.OPS


def _describe(t):
    """real nsl.types object -> O3 description with size terms"""
    from nsl import types
    comp = {types.Float: "float", types.Integer: "int", types.UnsignedInteger: "uint"}
    if t is None:
        return None
    for cls, name in comp.items():
        if isinstance(t, cls):
            return ("scalar", name)
    if isinstance(t, types.VectorType):
        return ("vector", _describe(t.GetComponentType())[1], t.GetComponentCount())
    if isinstance(t, types.MatrixType):
        return ("matrix", _describe(t.GetComponentType())[1], t.GetRowCount(), t.GetColumnCount())
    return ("other", repr(type(t)))


def _same(a, b):
    """z3 Bool: described type a (may hold proxies) equals O3 type b (z3 terms)"""
    if a is None or b is None:
        return z3.BoolVal(False)
    a = tuple(symx.term(x) if symx.is_sym(x) else x for x in a)
    # a matrix with a single column and a vector of that many rows denote the same value shape
    if a[0] == "vector" and b[0] == "matrix":
        return z3.And(O3.eqz(b[3], 1), O3.same_type(a, ("vector", b[1], b[2])))
    if a[0] == "matrix" and b[0] == "vector":
        return z3.And(O3.eqz(a[3], 1), O3.same_type(("vector", a[1], a[2]), b))
    return O3.same_type(a, b)


def _shape(kind, comp, side):
    if kind == "scalar":
        return ("scalar", comp)
    if kind == "vector":
        return ("vector", comp, f"n{side}")
    return ("matrix", comp, f"r{side}", f"c{side}")


def _typing(inst):
    from nsl import ast, types, op, Errors
    from nsl.passes.AddImplicitCasts import AddImplicitCastVisitor
    L, R = _shape(inst["lk"], inst["lc"], "L"), _shape(inst["rk"], inst["rc"], "R")
    names = sorted(set(_vars(L) + _vars(R)))
    Z = {n: z3.Int(n) for n in names}
    pre = z3.And(*[z3.And(Z[n] >= 1, Z[n] <= 4) for n in names]) if names else z3.BoolVal(True)
    operation = op.StrToOp(inst["op"])

    def fn():
        symx.REPR_CONCRETE = True
        try:
            lt = _mk_type(L, lambda n: SymNum(Z[n]))
            rt = _mk_type(R, lambda n: SymNum(Z[n]))
            a, b = ast.PrimaryExpression("a"), ast.PrimaryExpression("b")
            a.SetType(lt)
            b.SetType(rt)
            be = ast.BinaryExpression(operation, a, b)
            try:
                be.ResolveType(lt, rt)
                et = be.GetOperator()
                be.SetType(et.GetReturnType())
                v = AddImplicitCastVisitor()
                v.SetErrorHandler(Errors.ErrorHandler())
                v.v_Visit(be, None)
            except (Errors.CompileException, AssertionError, AttributeError, KeyError, TypeError) as e:
                if "not modelled" in str(e):
                    raise
                return ("reject", type(e).__name__)
            return ("accept", _describe(be.GetType()), _describe(be.GetLeft().GetType()), _describe(be.GetRight().GetType()),
                    isinstance(be.GetLeft(), ast.CastExpression), isinstance(be.GetRight(), ast.CastExpression))
        finally:
            symx.REPR_CONCRETE = False

    Lz, Rz = _subst(L, lambda n: Z[n]), _subst(R, lambda n: Z[n])
    acc, res, lo, ro = O3.binary_spec(inst["op"], Lz, Rz)

    def good(val, wrong=False):
        if acc is None:
            return z3.BoolVal(True)        # undefined by the statement (matrix comparison)
        if val[0] == "reject":
            return z3.Not(acc)
        if res is None:
            return z3.BoolVal(False)       # accepted although the table rejects this combination for every size
        want_res = res
        if wrong and res is not None:
            want_res = O3.with_comp(res, "uint" if res[1] != "uint" else "float")
        return z3.And(acc, _same(val[1], want_res), _same(val[2], lo), _same(val[3], ro),
                      # a cast is present exactly where the operand type differs from the original type
                      z3.BoolVal(val[4]) == z3.Not(O3.same_type(Lz, lo)), z3.BoolVal(val[5]) == z3.Not(O3.same_type(Rz, ro)))

    twin = (lambda val: good(val, wrong=True)) if inst.get("twin") else None
    return unit.decide(fn, pre, good, inst=inst, harness="C09", replay=replay, twin=twin, max_paths=6000)


# ---------------------------------------------------------------- harness B: programs
def _ir_type_desc(t):
    from nsl import LinearIR
    if isinstance(t, LinearIR.IntegerType):
        return ("scalar", "uint" if t.Unsigned else "int")
    if isinstance(t, LinearIR.FloatType):
        return ("scalar", "float")
    if isinstance(t, LinearIR.VectorType):
        return ("vector", _ir_type_desc(t.ElementType)[1], t.Size)
    if isinstance(t, LinearIR.MatrixType):
        return ("matrix", _ir_type_desc(t.ElementType)[1], t.RowCount, t.ColumnCount)
    return ("other", str(t))


LITERAL = {("scalar", "int"): "2", ("scalar", "float"): "2.5"}


def compile_binary(opstr, L, R, T, form="vars"):
    """-> ('reject', detail) | ('accept', static type of the returned value, operand types of the instruction)
    form: both operands are parameters ("vars"), or the right / left one is a literal constant of its type ("lit-right" / "lit-left")"""
    from nsl import Compiler, LinearIR
    if form == "lit-right":
        src = f"export function f({O3.spell(L)} a) -> {O3.spell(T)} {{ return a {opstr} {LITERAL[R]}; }}"
    elif form == "lit-left":
        src = f"export function f({O3.spell(R)} b) -> {O3.spell(T)} {{ return {LITERAL[L]} {opstr} b; }}"
    else:
        src = f"export function f({O3.spell(L)} a, {O3.spell(R)} b) -> {O3.spell(T)} {{ return a {opstr} b; }}"
    out = io.StringIO()
    try:
        with contextlib.redirect_stdout(out), contextlib.redirect_stderr(out):
            r = Compiler.Compiler().Compile(src)
    except SystemExit:
        return src, ("syntax",)
    except Exception as e:  # noqa: BLE001
        import traceback
        tb = traceback.extract_tb(e.__traceback__)
        where = tb[-1].name if tb else "?"
        if where == "Raise" and len(tb) > 1:
            where = tb[-2].name
        return src, ("reject", type(e).__name__, where, str(e)[:100])
    if r is None:
        return src, ("reject", "None", "Compile", "")
    ret = None
    for ins in r.IRModule.Functions["f"].Instructions:
        if isinstance(ins, LinearIR.ReturnInstruction) and ins.Value is not None:
            ret = _ir_type_desc(ins.Value.Type)
    return src, ("accept", ret)


def _conc(desc):
    return tuple(z3.simplify(x).as_long() if z3.is_expr(x) else x for x in desc) if desc else None


def _check_program(opstr, L, R, form="vars"):
    acc, res, lo, ro = O3.binary_spec(opstr, L, R)
    if acc is None:
        return None, None
    want_acc = z3.is_true(z3.simplify(acc))
    T = _conc(res) if want_acc else ("scalar", "int")
    src, got = compile_binary(opstr, L, R, T, form)
    if got[0] == "syntax":
        return src, dict(source=src, observed="syntax error")
    if want_acc:
        if got[0] != "accept":
            return src, dict(source=src, expected=("accept", T), observed=got, exc=got[1], where=got[2])
        if got[1] != T:
            return src, dict(source=src, expected=("accept", T), observed=got)
        return src, None
    if got[0] == "accept":
        return src, dict(source=src, expected="reject", observed=got)
    return src, None


def _programs(inst):
    res = dict(paths=0, queries=0, unsat=0, sat=0, violations=[], errors=[], nontrivial=True)
    bad = []
    forms = [(L, R, "vars") for L in O3.SPELLABLE for R in O3.SPELLABLE]
    # an operand that is a literal constant is typed like a parameter of the literal's type (an int literal next to a uint stays an int)
    forms += [(L, R, "lit-right") for L in O3.SPELLABLE for R in LITERAL]
    forms += [(L, R, "lit-left") for L in LITERAL for R in O3.SPELLABLE]
    for L, R, form in forms:
        src, b = _check_program(inst["op"], L, R, form)
        if src is None:
            continue
        res["paths"] += 1
        if b:
            b["form"] = form
            bad.append((L, R, b))
    seen = set()
    findings = core.load_findings(PID)
    known = {}
    rest = []
    for L, R, b in bad:
        hit = None
        for f in findings:
            tr, sy = f.get("trigger", {}), f.get("symptom", {})
            if f.get("kind") == "symptom" and inst["op"] in tr.get("ops", []) and [L[0], R[0]] in tr.get("kinds", []) \
                    and b.get("exc") == sy.get("exc") and b.get("where") == sy.get("where"):
                hit = f
        if hit:
            known.setdefault(hit["id"], hit["what"])
        else:
            rest.append((L, R, b))
    res["known"] = [dict(id=k, what=v) for k, v in known.items()]
    bad = rest
    for L, R, b in bad:
        key = (L[0], R[0], str(b.get("expected"))[:8])
        if key in seen:
            continue
        seen.add(key)
        res["violations"].append(dict(what=f"operator typing '{inst['op']}' ({len(bad)} type pairs differ), e.g. {b}",
                                      replay=dict(harness="C09", inst=dict(part="program"), op=inst["op"], L=L, R=R, form=b.get("form", "vars"))))
    return res


def replay(spec):
    inst = spec["inst"]
    if inst.get("part") == "module":
        r = _module_batch(inst)
        return dict(violations=[v["what"] for v in r["violations"]]) if r["violations"] else None
    if inst.get("part") == "program":
        _, b = _check_program(spec["op"], _tup(spec["L"]), _tup(spec["R"]), spec.get("form", "vars"))
        return b
    if inst.get("part") == "typing":
        from nsl import types, op, Errors
        inp = spec.get("inputs", {})
        L, R = _shape(inst["lk"], inst["lc"], "L"), _shape(inst["rk"], inst["rc"], "R")
        val = lambda n: inp.get(n, 1)  # noqa: E731
        Lc, Rc = _subst(L, val), _subst(R, val)
        acc, res, lo, ro = O3.binary_spec(inst["op"], Lc, Rc)
        if acc is None:
            return None
        want_acc = z3.is_true(z3.simplify(acc))
        try:
            et = types.ResolveBinaryExpressionType(op.StrToOp(inst["op"]), _mk_type(L, val), _mk_type(R, val))
            got = ("accept", _describe(et.GetReturnType()), _describe(et.GetOperandType(0)), _describe(et.GetOperandType(1)))
        except Exception as e:  # noqa: BLE001
            got = ("reject", type(e).__name__)
        if want_acc:
            exp = ("accept", _conc(res), _conc(lo), _conc(ro))

            def same(a, b):
                return a is not None and z3.is_true(z3.simplify(_same(a, b)))
            if got[0] == "accept" and all(same(g, e) for g, e in zip(got[1:], exp[1:])):
                return None
            return dict(op=inst["op"], left=Lc, right=Rc, expected=exp, observed=got)
        if got[0] == "accept" and got[2] is not None and got[3] is not None:
            return dict(op=inst["op"], left=Lc, right=Rc, expected="reject", observed=got)
        if got[0] == "accept":
            # typing returned operand types of None: the rejection only happens when casts are inserted
            from nsl import ast
            from nsl.passes.AddImplicitCasts import AddImplicitCastVisitor
            a, b = ast.PrimaryExpression("a"), ast.PrimaryExpression("b")
            a.SetType(_mk_type(L, val)); b.SetType(_mk_type(R, val))
            be = ast.BinaryExpression(op.StrToOp(inst["op"]), a, b)
            try:
                be.ResolveType(a.GetType(), b.GetType())
                be.SetType(be.GetOperator().GetReturnType())
                AddImplicitCastVisitor().v_Visit(be, None)
            except Exception:  # noqa: BLE001
                return None
            return dict(op=inst["op"], left=Lc, right=Rc, expected="reject", observed="accepted with operand types None")
        return None
    return None


def _module_batch(inst):
    """context independence: all pairs of one operator that the table accepts (and the back end can lower) as functions of ONE
    module, in the given order; the static type of each function's result must be the table's, whatever else the module contains"""
    from nsl import Compiler, LinearIR
    res = dict(paths=0, queries=0, unsat=0, sat=0, violations=[], errors=[], nontrivial=True)
    findings = core.load_findings(PID)
    members = []
    for L in O3.SPELLABLE:
        for R in O3.SPELLABLE:
            acc, rt, lo, ro = O3.binary_spec(inst["op"], L, R)
            if acc is None or not z3.is_true(z3.simplify(acc)):
                continue
            if any(f.get("kind") == "symptom" and inst["op"] in f.get("trigger", {}).get("ops", []) and [L[0], R[0]] in f.get("trigger", {}).get("kinds", []) for f in findings):
                continue        # accepted by typing but not lowerable today (known findings)
            members.append((L, R, _conc(rt)))
    if inst.get("reverse"):
        members = members[::-1]
    src = "\n".join(f"export function f{k}({O3.spell(L)} a, {O3.spell(R)} b) -> {O3.spell(T)} {{ return a {inst['op']} b; }}" for k, (L, R, T) in enumerate(members))
    res["paths"] = len(members)
    out = io.StringIO()
    try:
        with contextlib.redirect_stdout(out), contextlib.redirect_stderr(out):
            r = Compiler.Compiler().Compile(src)
    except Exception as e:  # noqa: BLE001
        r, err = None, f"{type(e).__name__}: {str(e)[:120]}"
    else:
        err = "Compile returned None: " + out.getvalue().strip()[-120:]
    spec = dict(harness="C09", inst=dict(part="module", op=inst["op"], reverse=bool(inst.get("reverse"))))
    if r is None:
        res["violations"].append(dict(what=f"{len(members)} functions that are accepted one by one are rejected as one module (operator {inst['op']}): {err}", replay=spec))
        return res
    bad = []
    for k, (L, R, T) in enumerate(members):
        ret = None
        for ins in r.IRModule.Functions[f"f{k}"].Instructions:
            if isinstance(ins, LinearIR.ReturnInstruction) and ins.Value is not None:
                ret = _ir_type_desc(ins.Value.Type)
        if ret != T:
            bad.append((O3.spell(L), O3.spell(R), T, ret))
    if bad:
        res["violations"].append(dict(what=f"operator typing '{inst['op']}' depends on the other functions of the module ({len(bad)} of {len(members)} functions differ), e.g. "
                                           f"{bad[0][0]} {inst['op']} {bad[0][1]}: expected {bad[0][2]}, got {bad[0][3]}", replay=spec))
        return res
    # the conversions inserted for the operands must not depend on the rest of the module either: each function of the batch computes what the
    # same function compiled alone computes (concrete inputs; differential)
    from nsl import VM
    from ..nslref import joint

    def value(t, k):
        kind = t[0]
        base = [3, 2, 5, 4][k % 4]
        comp = t[1]
        one = (lambda v: float(v) + 0.5) if comp == "float" else (lambda v: v)
        if kind == "scalar":
            return one(base)
        if kind == "vector":
            return [one(base + i) for i in range(t[2])]
        return [[one(base + i + 2 * j) for j in range(t[3])] for i in range(t[2])]
    try:
        linked = joint.link(r)
    except Exception as e:  # noqa: BLE001
        res["violations"].append(dict(what=f"the module of accepted operator functions cannot be linked: {type(e).__name__}: {e}", replay=spec))
        return res
    diffs = []
    for k, (L, R, T) in enumerate(members):
        single = f"export function f{k}({O3.spell(L)} a, {O3.spell(R)} b) -> {O3.spell(T)} {{ return a {inst['op']} b; }}"
        try:
            alone = joint.link(joint.compile_source(single))
        except joint.Rejected:
            continue
        outs = []
        for prog in (alone, linked):
            try:
                with contextlib.redirect_stdout(io.StringIO()):
                    outs.append(("value", VM.VirtualMachine(prog).Invoke(f"f{k}", a=value(L, 0), b=value(R, 1))))
            except Exception as e:  # noqa: BLE001
                outs.append(("raises", type(e).__name__))
        if outs[0][0] != outs[1][0] or (outs[0][0] == "value" and not joint.close(outs[0][1], outs[1][1])) or (outs[0][0] == "raises" and outs[0][1] != outs[1][1]):
            diffs.append((O3.spell(L), O3.spell(R), outs[0], outs[1]))
    if diffs:
        res["violations"].append(dict(what=f"'{inst['op']}': {len(diffs)} functions compute something else inside the module than compiled alone, e.g. {diffs[0][0]} {inst['op']} {diffs[0][1]}: "
                                           f"alone {diffs[0][2]}, in the module {diffs[0][3]}", replay=spec))
        return res
    # a rejected pair whose mirror image is accepted stays rejected after the accepted ones have been typed
    k = 0
    for L in O3.SPELLABLE:
        for R in O3.SPELLABLE:
            acc, rt, lo, ro = O3.binary_spec(inst["op"], L, R)
            acc2 = O3.binary_spec(inst["op"], R, L)[0]
            if acc is None or acc2 is None or z3.is_true(z3.simplify(acc)) or not z3.is_true(z3.simplify(acc2)):
                continue
            k += 1
            if k > 6:
                break
            extra = f"\nexport function g({O3.spell(L)} a, {O3.spell(R)} b) -> void {{ a {inst['op']} b; }}"
            try:
                with contextlib.redirect_stdout(io.StringIO()), contextlib.redirect_stderr(io.StringIO()):
                    r2 = Compiler.Compiler().Compile(src + extra)
            except Exception:  # noqa: BLE001
                r2 = None
            res["paths"] += 1
            if r2 is not None:
                res["violations"].append(dict(what=f"{O3.spell(L)} {inst['op']} {O3.spell(R)} is rejected alone but accepted after the accepted combinations have been typed in the same module", replay=spec))
                return res
    return res


def run_instance(inst):
    if inst["part"] == "module":
        r = _module_batch(inst)
        r["sample"] = dict(inst)
        r["key"] = repr(sorted((k, str(v)) for k, v in inst.items()))
        r["funcs"] = ["nsl.Compiler.Compiler.Compile", "nsl.passes.ComputeTypes.ComputeTypeVisitor._ProcessExpression", "nsl.passes.AddImplicitCasts"]
        return r
    r = _typing(inst) if inst["part"] == "typing" else _programs(inst)
    r["sample"] = dict(inst)
    r["key"] = repr(sorted((k, str(v)) for k, v in inst.items()))
    r["funcs"] = ["nsl.types.ResolveBinaryExpressionType", "nsl.types._GetCommonScalarType", "nsl.types._GetCommonPrimitiveType",
                  "nsl.types._GetRowsColumns", "nsl.op.IsComparison", "nsl.ast.BinaryExpression.ResolveType",
                  "nsl.passes.AddImplicitCasts.AddImplicitCastVisitor.v_BinaryExpression"] if inst["part"] == "typing" else \
        ["nsl.Compiler.Compiler.Compile", "nsl.passes.ComputeTypes.ComputeTypeVisitor._ProcessExpression", "nsl.passes.LowerToIR.LowerToIRVisitor.v_BinaryExpression"]
    return r


def run(tier, seed, only=None):
    chk = core.Check(PID, "model_checking", tier, seed,
                     rule="A: one instance per (operator, left kind, right kind, left component, right component) with symbolic vector sizes / "
                          "matrix shapes in 1..4; B: one instance per operator covering all 14 x 14 spellable type pairs (concrete). Non-trivial = "
                          "a query over the symbolic sizes was discharged / programs were compiled")
    chk.bounds = {"A": "13 operators x {scalar,vector,matrix}^2 x {float,int,uint}^2 = 1053 instances, sizes 1..4 symbolic",
                  "B": "13 x 14 x 14 programs (3 scalar, 9 vector, 2 matrix types); per operator all accepted pairs again as functions of one module, in both orders (typing must not depend on the rest of the module)",
                  "outside": "matrix comparison (undefined by the statement); types that cannot be built from PrimitiveType; sizes > 4; "
                             "a matrix result with one column is identified with the vector of its rows"}
    chk.assumptions = ["repr() of a symbolic size forks over its feasible values (PrimitiveType.__eq__ compares reprs)",
                       "any exception raised by typing / cast insertion counts as a rejection at the typing interface",
                       "table vlib/spec_types.binary_spec transcribes the statement of C09"]
    insts = []
    kinds = ("scalar", "vector", "matrix")
    comps = ("float", "int", "uint")
    for o in OPSTR:
        for lk in kinds:
            for rk in kinds:
                for lc in comps:
                    for rc in comps:
                        insts.append(dict(part="typing", op=o, lk=lk, rk=rk, lc=lc, rc=rc,
                                          twin=(lk == rk == "vector" and lc == "float" and rc == "int" and o in ("+", "<"))))
    insts += [dict(part="programs", op=o) for o in OPSTR]
    insts += [dict(part="module", op=o, reverse=rv) for o in OPSTR for rv in (False, True)]
    insts = [i for i in insts if only in (None, i["part"])]
    # matrix x matrix instances have the most paths: schedule them first
    insts.sort(key=lambda i: -((i.get("lk") == "matrix") + (i.get("rk") == "matrix")))
    results = core.run_pool("vlib.harness.C09", "run_instance", insts, chunksize=4)
    for inst, r in zip(insts, results):
        chk.absorb(r, part=inst["part"])
    return chk.finish()
