"""C15 -- global state persists exactly across invocation histories; VMs are isolated.

Histories of host operations (SetGlobal, Invoke; every global of both machines is observed
through GetGlobal after every step) on one or two real VMs created from the same linked
program start from an arbitrary state (every global of every VM set to symbolic values of its
type: one inductive step from any state when the history has one further operation, short
histories beyond that) and carry symbolic payloads.  The reference is the state machine of
the source program (O1 with persistent globals, one instance per VM).  z3 decides per joint
path that every return value and every observed global equals the reference's.  Concrete
gates per path: no container object is shared between the globals of the two VMs, between
two globals of one VM, or with the Program; the Program's listing and constants are unchanged.
"""
import io
import random
import itertools
import z3
from .. import core, symx, shims, unit
from ..symx import Engine
from ..nslref import ast as A
from ..nslref import joint
from ..nslref.parse import parse
from ..nslref.interp import Interp, deep, RefError
from . import famcheck

PID = "C15"

PROGRAMS = {
    "counter": """int cnt; float acc;
export function bump(int x) -> int { int t; t += x; cnt = cnt + t; return cnt; }
export function mix(float y) -> float { float l; l = l + y; acc = acc * 0.5 + l; if (acc > 4.0) { cnt = cnt + 1; } return acc + cnt; }
export function peek() -> int { return cnt; }
""",
    "array": """int[3] arr; int top;
export function put(int i, int v) -> int { arr[i] = arr[i] + v; top = i; return arr[0] + arr[1] * 2 + arr[2] * 4; }
export function shift() -> void { int[3] t; t[0] = arr[1]; t[1] = arr[2]; t[2] = arr[0]; arr[0] = t[0]; arr[1] = t[1]; arr[2] = t[2]; }
export function last() -> int { return arr[top]; }
""",
    "array2d": """int[2][2] grid;
export function put(int i, int j, int v) -> int { int[2][2] loc; loc[i][j] = v; grid[i][j] = grid[i][j] + loc[i][j] + loc[j][i]; return grid[0][0] + grid[0][1] * 2 + grid[1][0] * 4 + grid[1][1] * 8; }
export function swap() -> void { int t = grid[0][1]; grid[0][1] = grid[1][0]; grid[1][0] = t; }
""",
    "vector": """float3 gv; float3x3 gm;
export function setc(int i, float v) -> float3 { gv[i] = v; gm[i][i] = gm[i][i] + v; return gv; }
export function swz(float2 p) -> float { gv.zx = p; float3 l; l.y = gv.x; gv = gv + l; return gv.x + gv.y + gv.z; }
export function row(int i) -> float3 { float3x3 m; m[i] = gv; gm = gm + m; return gm[i]; }
""",
    "struct": """struct S { int i; float f; float3 v; }
S gs; int k;
export function upd(int a, float b) -> float { gs.i = gs.i + a; gs.f = b; gs.v.y = gs.f; k = k + 1; return gs.f + gs.i + gs.v.y; }
export function copy() -> float { S t; t = gs; t.i = 100; t.v.x = 5.0; return gs.i + gs.v.x + t.i; }
""",
    "nested": """struct In { int x; int[2] a; }
struct Out { In inner; int[3] arr; float3 v; }
Out gs;
export function loc(int i, int v) -> int { Out s; s.arr[i] = s.arr[i] + v; s.inner.x = s.inner.x + v; s.inner.a[1] = s.inner.a[1] + 1; s.v.y = s.v.y + 1.0; return s.arr[0] + s.arr[1] * 10 + s.arr[2] * 100 + s.inner.x * 1000 + s.inner.a[1] * 10000; }
export function glo(int i, int v) -> int { gs.inner.x = gs.inner.x + v; gs.arr[i] = v; gs.inner.a[0] = gs.inner.a[0] + 1; Out t; t = gs; t.arr[i] = 5; t.inner.a[0] = 9; return gs.arr[i] + gs.inner.a[0] * 10; }
export function arrs(int i, int v) -> int { In one; one.a[i] = one.a[i] + v; int[2][2] m; m[i][i] = m[i][i] + v; float3[2] vs; vs[i].x = vs[i].x + 1.0; return one.a[0] + one.a[1] * 10 + m[0][0] * 1000 + m[1][1] * 10000 + (vs[i].x > 1.5) * 100000; }
""",
    "returned": """float3x3 grid; float3 row; int[3] arr; int[3] snap;
function rowOf(int i) -> float3 { return grid[i]; }
function whole() -> int[3] { return arr; }
export function take(int i) -> float { row = rowOf(i); return row.x; }
export function poke(int i, int j, float v) -> float { grid[i][j] = v; return row.x + row.y + row.z; }
export function snapshot() -> int { snap = whole(); return snap[0]; }
export function bump(int i, int v) -> int { arr[i] = arr[i] + v; return snap[0] + snap[1] * 10 + snap[2] * 100; }
""",
    "calls": """int depth; int total;
function rec(int n) -> int { depth = depth + 1; if (n <= 0) return 0; total = total + n; return rec(n - 1) + 1; }
export function run(int n) -> int { int before = total; int r = rec(n); return r * 100 + (total - before); }
export function reset() -> void { depth = 0; }
""",
    "locals": """int g;
export function f(int a) -> int { int x; int[2] arr; float y; x = x + a; arr[1] = arr[1] + x; y = y + arr[1]; g = g + 1; return x + arr[0] + arr[1] * 10; }
export function h(int a) -> int { int x; if (a > 0) { x = 7; } return x + g; }
""",
}
BOUNDS = {"i": (0, 2), "j": (0, 1), "n": (0, 3)}
PROGRAM_BOUNDS = {"array2d": {"i": (0, 1), "j": (0, 1)}, "array": {"i": (0, 2), "top": (0, 2)}, "nested": {"i": (0, 1)}, "returned": {"i": (0, 2), "j": (0, 2)}}


def alphabet(prog):
    ops = []
    for f in prog.funcs:
        if f.exported:
            ops.append(("invoke", f.name))
    for t, n in prog.globals:
        ops.append(("set", n))
    return ops


def histories(prog, tier, seed, pname):
    ops = alphabet(prog)
    two = [(vm, op) for vm in (0, 1) for op in ops]
    out = []
    # one inductive step from an arbitrary state: every single operation, on VM 0 with VM 1 standing by
    for op in ops:
        out.append([(0, op)])
    for a, b in itertools.product(ops, repeat=2):
        out.append([(0, a), (0, b)])
    for a, b in itertools.product(ops, repeat=2):
        out.append([(0, a), (1, b)])
    rnd = random.Random(f"c15/{seed}/{pname}")
    n3 = 40 if tier == "quick" else 400
    n4 = 0 if tier == "quick" else 150
    for _ in range(n3):
        out.append([rnd.choice(two) for _ in range(3)])
    for _ in range(n4):
        out.append([rnd.choice(two) for _ in range(4)])
    seen, uniq = set(), []
    for h in out:
        k = repr(h)
        if k not in seen:
            seen.add(k)
            uniq.append(h)
    return uniq


def fingerprint(program):
    from nsl import LinearIR
    out = io.StringIO()
    pr = LinearIR.InstructionPrinter(printFunction=lambda *a, end="\n": print(*a, end=end, file=out))
    for name, f in program.Functions.items():
        pr.Print(f)
        out.write(repr(sorted((c.Reference, repr(c.Value)) for c in f.Constants)))
    out.write(repr(sorted((k, str(v)) for k, v in program.Globals.items())))
    return out.getvalue()


def containers(v, acc):
    if isinstance(v, (list, dict)):
        acc.append(v)
        for x in (v.values() if isinstance(v, dict) else v):
            containers(x, acc)
    return acc


def sharing(vms, gnames):
    """container objects reachable from more than one global (of any VM)"""
    seen = {}
    probs = []
    for k, vm in enumerate(vms):
        for g in gnames:
            for c in containers(vm.GetGlobal(g), []):
                if id(c) in seen and seen[id(c)] != (k, g):
                    probs.append(f"{seen[id(c)]} and {(k, g)} share a container object")
                seen.setdefault(id(c), (k, g))
    return probs


def run_history(linked, prog, hist, fresh, bounds):
    """executes the history on real VMs and on the reference; -> (observations_vm, observations_ref, problems)"""
    from nsl import VM
    vms = [VM.VirtualMachine(linked), VM.VirtualMachine(linked)]
    refs = [Interp(prog), Interp(prog)]
    gnames = [n for _, n in prog.globals]
    gtypes = {n: t for t, n in prog.globals}
    obs_vm, obs_ref = [], []
    # arbitrary initial state of both machines
    for k in (0, 1):
        for n in gnames:
            v = fresh(gtypes[n], f"init{k}_{n}", n)
            vms[k].SetGlobal(n, deep(v))
            refs[k].globals[n][1] = deep(v)
    for step, (k, (kind, name)) in enumerate(hist):
        if kind == "set":
            v = fresh(gtypes[name], f"s{step}_{name}", name)
            vms[k].SetGlobal(name, deep(v))
            refs[k].globals[name][1] = deep(v)
            r_vm = r_ref = None
        else:
            f = [x for x in prog.funcs if x.name == name and x.exported][0]
            args = {pn: fresh(pt, f"s{step}_{pn}", pn) for pt, pn in f.params}
            r_ref = refs[k].invoke(name, deep(args))
            with __import__("contextlib").redirect_stdout(io.StringIO()):
                r_vm = vms[k].Invoke(name, **deep(args))
        obs_ref.append((r_ref, [{n: deep(refs[q].globals[n][1]) for n in gnames} for q in (0, 1)]))
        obs_vm.append((r_vm, [{n: deep(vms[q].GetGlobal(n)) for n in gnames} for q in (0, 1)]))
    return obs_vm, obs_ref, sharing(vms, gnames)


def run_instance(inst):
    pname = inst["program"]
    src = PROGRAMS[pname]
    prog = parse(src)
    hist = [(k, tuple(op)) for k, op in inst["history"]]
    res = dict(paths=0, queries=0, unsat=0, sat=0, undecided=0, cut=0, violations=[], errors=[], nontrivial=False, known=[], solver_time=0.0)
    res["key"] = pname + repr(hist)
    res["funcs"] = FUNCS
    res["sample"] = dict(program=pname, history=[f"vm{k}.{kind}({name})" for k, (kind, name) in hist])
    try:
        linked = joint.link(joint.compile_source(prog.src()))
    except joint.Rejected as e:
        res["errors"].append(f"state program rejected: {e}")
        return res
    fp0 = fingerprint(linked)
    shims.install_vm()
    zvars, pre = [], []
    bounds = dict(BOUNDS)
    bounds.update(PROGRAM_BOUNDS.get(pname, {}))
    cache = {}

    def fresh(t, path, short):
        if path in cache:
            return cache[path]
        vals, zv, p = joint.sym_inputs([(t, path)], structs=prog.structs)
        zvars.extend(zv)
        pre.extend(p)
        v = vals[path]
        lo_hi = bounds.get(short)
        for leaf in famcheck.leaves(v):
            if hasattr(leaf, "e"):
                if lo_hi and not leaf.isf:
                    pre.append(z3.And(leaf.e >= lo_hi[0], leaf.e <= lo_hi[1]))
                elif not leaf.isf:
                    pre.append(z3.And(leaf.e >= -256, leaf.e <= 256))
        cache[path] = v
        return v

    # a dry run creates all symbolic inputs (so that the precondition is complete before exploration)
    class _Dry(Exception):
        pass
    problems_seen = []

    def fn():
        o_vm, o_ref, probs = run_history(linked, prog, hist, fresh, bounds)
        return o_vm, o_ref, probs

    # pre-create variables in history order
    gtypes = {n: t for t, n in prog.globals}
    for k in (0, 1):
        for t, n in prog.globals:
            fresh(t, f"init{k}_{n}", n)
    for step, (k, (kind, name)) in enumerate(hist):
        if kind == "set":
            fresh(gtypes[name], f"s{step}_{name}", name)
        else:
            f = [x for x in prog.funcs if x.name == name and x.exported][0]
            for pt, pn in f.params:
                fresh(pt, f"s{step}_{pn}", pn)
    preF = z3.And(*pre) if pre else z3.BoolVal(True)
    eng = Engine(max_decisions=200, max_paths=400, path_timeout=8.0)
    import time as _time
    eng.deadline = _time.time() + 120.0
    paths = eng.explore(fn, preF)
    if eng.truncated:
        res["cut"] += 1
    res["paths"] = len(paths)
    if not paths:
        res["errors"].append("no feasible path (vacuous history)")
    grid = joint.grid(zvars)
    for p in paths:
        if p.kind == "cut":
            res["cut"] += 1
            continue
        if p.kind == "timeout":
            res["undecided"] += 1
            continue
        if p.kind == "exc":
            e = p.value
            if isinstance(e, RefError):
                res["errors"].append(f"reference interpreter: {e}")
                continue
            bad, what = z3.BoolVal(True), f"the VM fails with {type(e).__name__}: {str(e)[:80]} during the history"
            probs = []
        else:
            o_vm, o_ref, probs = p.value
            bad = z3.Or(*[z3.Or(joint.differs(a[0], b[0]), *[joint.differs(a[1][q][n], b[1][q][n]) for q in (0, 1) for n in a[1][q]]) for a, b in zip(o_vm, o_ref)])
            what = "return value or observed globals differ from the reference state machine"
        r, model = eng.query(preF, p.pc + grid, bad) if grid else ("unsat", None)
        if r == "unsat":
            r, model = eng.query(preF, p.pc, bad)
        res["queries"] += 1
        if r == "unsat":
            res["unsat"] += 1
            res["nontrivial"] = True
        elif r == "unknown":
            res["undecided"] += 1
        else:
            res["sat"] += 1
            vals = unit.model_values(model)
            spec = dict(harness="C15", inst=inst, kind="values", inputs=vals)
            obs = replay(spec)
            if obs:
                res["violations"].append(dict(what=f"{what}; {obs}", replay=spec))
            elif any(k == "float" for _, _, k in zvars):
                res["undecided"] += 1
            else:
                res["errors"].append(f"counterexample {vals} for history {hist} of '{pname}' did not reproduce")
        if probs:
            # sharing is a property of the object graph on this path; any input of the path exhibits it
            r2, m2 = eng.query(preF, p.pc, z3.BoolVal(True))
            vals = unit.model_values(m2) if r2 == "sat" else {}
            spec = dict(harness="C15", inst=inst, kind="sharing", inputs=vals)
            if replay(spec):
                res["violations"].append(dict(what=f"global values share container objects after the history: {probs[:2]}", replay=spec))
    if fingerprint(linked) != fp0:
        res["violations"].append(dict(what="executing the history changed the linked Program (listing or constants differ)", replay=dict(harness="C15", inst=inst, kind="program", inputs={})))
    res["solver_time"] = eng.stats()["solver_time_s"]
    return res


FUNCS = ["nsl.VM.VirtualMachine.__init__", "nsl.VM.VirtualMachine.SetGlobal", "nsl.VM.VirtualMachine.GetGlobal", "nsl.VM.VirtualMachine.Invoke", "nsl.VM.ExecutionContext.Invoke",
         "nsl.VM.ExecutionContext.__Execute", "nsl.VM.ExecutionContext.__CreateInstance", "nsl.VM.ExecutionContext.__CreateStructureInstance", "nsl.LinearIR.Linker.Link"]


def replay(spec):
    inst = spec["inst"]
    pname = inst["program"]
    prog = parse(PROGRAMS[pname])
    hist = [(k, tuple(op)) for k, op in inst["history"]]
    vals = spec.get("inputs", {})
    try:
        linked = joint.link(joint.compile_source(prog.src()))
    except joint.Rejected:
        return None
    fp0 = fingerprint(linked)

    def fresh(t, path, short):
        return joint.concrete_inputs([(t, path)], vals, structs=prog.structs)[path]
    from ..nslref.interp import OutOfDomain
    try:
        o_vm, o_ref, probs = run_history(linked, prog, hist, fresh, {})
    except (OutOfDomain, symx.Abort):
        return None
    except Exception as e:  # noqa: BLE001
        try:
            # does the reference alone get through?  then the failure is the VM's
            refs = Interp(prog)
            return dict(vm_exception=f"{type(e).__name__}: {e}")
        except Exception:  # noqa: BLE001
            return None
    kind = spec.get("kind")
    if kind == "sharing":
        return dict(sharing=probs[:3]) if probs else None
    if kind == "program":
        return dict(program_changed=True) if fingerprint(linked) != fp0 else None
    for step, (a, b) in enumerate(zip(o_vm, o_ref)):
        if not joint.close(a[0], b[0]):
            return dict(step=step, op=hist[step], returned=a[0], expected=b[0])
        for q in (0, 1):
            for n in a[1][q]:
                if not joint.close(a[1][q][n], b[1][q][n]):
                    return dict(step=step, op=hist[step], vm=q, global_=n, observed=a[1][q][n], expected=b[1][q][n])
    return None


def run(tier, seed, only=None):
    chk = core.Check(PID, "model_checking", tier, seed,
                     rule="one (state program, history) per instance: both VMs start from an arbitrary symbolic state, each operation carries symbolic payloads, all globals of both VMs are "
                          "observed after every step. Distinct = distinct (program, history); non-trivial = >= 1 joint path whose comparison query was discharged")
    insts = []
    for pname, src in PROGRAMS.items():
        if only and only not in pname:
            continue
        prog = parse(src)
        for h in histories(prog, tier, seed, pname):
            insts.append(dict(program=pname, history=[[k, list(op)] for k, op in h]))
    chk.assumptions = ["z3 Int/Real model of Python int/float", "reference state machine = O1 with persistent globals, one instance per VM",
                       "hosts hand each VM its own copy of a container value (aliasing created by the host is outside the property)",
                       "O1's domain assumptions (index in range, no overflow) restrict the inputs of each step"]
    chk.shims = ["nsl.VM.float", "nsl.VM.int"]
    chk.bounds = {"programs": list(PROGRAMS), "histories": "every single operation from an arbitrary state (inductive step); all pairs on one VM and across two VMs; %s sampled by VERIF_SEED" %
                  ("40 triples per program" if tier == "quick" else "400 triples and 150 quadruples per program"),
                  "payloads": "ints in [-256, 256], indices inside their arrays, recursion depth <= 3; floats as reals",
                  "outside": "longer histories (covered only through the inductive step); host-side aliasing; programs outside the list"}
    famcheck.o1_selftest(chk)
    results = core.run_pool("vlib.harness.C15", "run_instance", insts)
    famcheck.dedupe(results)
    chk.absorb_all(results)
    return chk.finish()
