"""C14 -- every compiled IR module is well-formed.

For every IR module the real compiler produces for the program families, at both optimisation
levels:
  * structural gate (concrete): references unique within a function; every operand is a constant
    of the function or an instruction that is still part of it and produces a value; branch
    targets are blocks of the same function (two when conditional); calls name a function of
    the linked program with the same number of arguments;
  * all-paths definition-before-use (solver): the CFG the VM executes (explicit branches,
    fall-through between consecutive blocks, nothing after a terminator) is encoded with one
    integer variable per path step; z3 is asked for a path entry -> use(u, v) that does not
    pass def(v).  A violating path can always be shortened to a simple one, so the path
    length bound (number of blocks) is complete for the function at hand, not a truncation.
"""
import z3
import time
from .. import core
from ..gen import core1, f1, f2, f3, f4, f4r, f5
from ..nslref import joint
from . import famcheck

PID = "C14"


# ----------------------------------------------------------------------------- operand extraction (independent of Instruction.Uses)
def operands(i):
    """[(role, Value)] read through the public properties of each instruction class"""
    from nsl import LinearIR as IR
    out = []
    if isinstance(i, IR.BinaryInstruction):
        out += [("value", v) for v in i.Values]
    elif isinstance(i, IR.BranchInstruction):
        if i.Predicate is not None:
            out.append(("predicate", i.Predicate))
    elif isinstance(i, IR.ReturnInstruction):
        if i.Value is not None:
            out.append(("value", i.Value))
    elif isinstance(i, IR.UnaryInstruction):
        out.append(("value", i.Value))
    elif isinstance(i, IR.ConstructPrimitiveInstruction):
        out += [("value", v) for v in i.Values]
    elif isinstance(i, IR.MemberAccessInstruction):
        out.append(("variable", i.Variable))
        if i.Store is not None:
            out.append(("store", i.Store))
    elif isinstance(i, IR.ShuffleInstruction):
        out += [("first", i.First), ("second", i.Second)]
    elif isinstance(i, IR.VariableAccessInstruction):
        if i.Store is not None:
            out.append(("store", i.Store))
    elif isinstance(i, IR.CallInstruction):
        out += [("argument", a) for a in i.Arguments]
    elif isinstance(i, IR._IndexedAccessBase):
        out += [("array", i.Array), ("index", i.Index)]
        if i.Store is not None:
            out.append(("store", i.Store))
    elif isinstance(i, IR.DeclareVariableInstruction):
        pass
    else:
        out.append(("unknown-instruction-class", None))
    # a store whose value operand is missing (r5-C14-1: an operand nulled by a stale use list) is an operand that is no value
    if i.OpCode in (IR.OpCode.STORE, IR.OpCode.STORE_ARRAY, IR.OpCode.STORE_MEMBER) and getattr(i, "Store", 0) is None:
        out.append(("store", None))
    return out


def defines_value(i):
    """does executing the instruction bind its reference on the VM?"""
    from nsl import LinearIR as IR
    oc = i.OpCode
    return oc not in (IR.OpCode.STORE, IR.OpCode.STORE_ARRAY, IR.OpCode.STORE_MEMBER, IR.OpCode.BRANCH, IR.OpCode.RETURN)


def is_terminator(i):
    from nsl import LinearIR as IR
    return i.OpCode in (IR.OpCode.BRANCH, IR.OpCode.RETURN)


# ----------------------------------------------------------------------------- per function
def check_function(fn, program_functions):
    """-> (structural problems, cfg description, use pairs)"""
    from nsl import LinearIR as IR
    problems = []
    blocks = list(fn.BasicBlocks)
    bindex = {id(b): k for k, b in enumerate(blocks)}
    consts = list(fn.Constants)
    refs = {}
    for kind, objs in (("constant", consts), ("block", blocks)):
        for o in objs:
            if o.Reference in refs:
                problems.append(f"reference {o.Reference} is used by two values ({refs[o.Reference][0]} and {kind})")
            refs[o.Reference] = (kind, o)
    where = {}
    for bk, b in enumerate(blocks):
        for pos, i in enumerate(b.Instructions):
            if i.Reference in refs:
                problems.append(f"reference {i.Reference} is used by two values ({refs[i.Reference][0]} and instruction {type(i).__name__})")
            refs[i.Reference] = ("instruction", i)
            where[i.Reference] = (bk, pos)
            if i.Reference < 0:
                problems.append(f"instruction {type(i).__name__} has no reference")
    # live prefix of each block (up to and including the first terminator) and successors
    succ, live = {}, {}
    for bk, b in enumerate(blocks):
        n = len(b.Instructions)
        term = None
        for pos, i in enumerate(b.Instructions):
            if is_terminator(i):
                term, n = i, pos + 1
                break
        live[bk] = n
        if term is None:
            succ[bk] = [bk + 1] if bk + 1 < len(blocks) else []
        elif term.OpCode == IR.OpCode.RETURN:
            succ[bk] = []
        else:
            targets = [("true", term.TrueBlock)]
            if term.Predicate is not None:
                targets.append(("false", term.FalseBlock))
            elif term.FalseBlock is not None:
                pass
            s = []
            for name, t in targets:
                if t is None:
                    problems.append(f"branch %{term.Reference} in bb_{b.Reference} has no {name} target")
                elif id(t) not in bindex:
                    problems.append(f"branch %{term.Reference} in bb_{b.Reference} targets a block that is not part of the function (bb_{getattr(t, 'Reference', '?')})")
                else:
                    s.append(bindex[id(t)])
            succ[bk] = s
    pairs = []
    for bk, b in enumerate(blocks):
        for pos, i in enumerate(b.Instructions):
            for role, v in operands(i):
                if role == "unknown-instruction-class":
                    problems.append(f"instruction class {type(i).__name__} is unknown to the checker")
                    continue
                if v is None:
                    problems.append(f"{type(i).__name__} %{i.Reference}: operand '{role}' is None")
                    continue
                if not hasattr(v, "Reference"):
                    problems.append(f"{type(i).__name__} %{i.Reference}: operand '{role}' is not a value ({v!r})")
                    continue
                ent = refs.get(v.Reference)
                if ent is None:
                    problems.append(f"{type(i).__name__} %{i.Reference}: operand '{role}' (%{v.Reference}) is neither a constant nor an instruction of the function")
                    continue
                kind, obj = ent
                if kind == "constant":
                    if not isinstance(v, IR.ConstantValue):
                        problems.append(f"{type(i).__name__} %{i.Reference}: operand '{role}' (%{v.Reference}) collides with a constant's reference")
                    continue
                if kind == "block":
                    problems.append(f"{type(i).__name__} %{i.Reference}: operand '{role}' refers to a basic block")
                    continue
                if not defines_value(obj):
                    problems.append(f"{type(i).__name__} %{i.Reference}: operand '{role}' (%{v.Reference}) is a {obj.OpCode.name} instruction, which produces no value")
                    continue
                if pos < live[bk]:
                    pairs.append((i.Reference, v.Reference, (bk, pos), where[v.Reference]))
            if isinstance(i, IR.CallInstruction):
                callee = program_functions.get(i.Function)
                if callee is None:
                    problems.append(f"call %{i.Reference} names '{i.Function}', which is not a function of the linked program")
                elif len(callee.Type.Arguments) != len(i.Arguments):
                    problems.append(f"call %{i.Reference} passes {len(i.Arguments)} arguments to '{i.Function}', which takes {len(callee.Type.Arguments)}")
    return problems, (len(blocks), succ, live), pairs


def solve_paths(nblocks, succ, live, pairs, timeout_ms=20000):
    """z3: is there a path b_0 = 0 -> ... -> b_L = block(use) that has not executed def before the use?
    -> ("unsat"|"sat"|"unknown", witness, solver time)"""
    if not pairs:
        return "unsat", None, 0.0
    # distinct obligations (use block, use position, def block, def position, def is dead code); all of them go to the solver
    obl = {}
    for u, v, (ub, up), (db, dp) in pairs:
        dead_def = dp >= live[db]
        obl.setdefault((ub, db, dead_def, (dp < up) if ub == db else None), (u, v, up, dp))
    n = nblocks
    p = [z3.Int(f"p{t}") for t in range(n)]
    L = z3.Int("L")
    s = z3.Solver()
    s.set("timeout", timeout_ms)
    s.add(L >= 0, L < n, p[0] == 0)
    for t in range(n):
        s.add(p[t] >= 0, p[t] < n)
    edges = [(a, b) for a, bs in succ.items() for b in bs]
    for t in range(n - 1):
        s.add(z3.Implies(t < L, z3.Or(*[z3.And(p[t] == a, p[t + 1] == b) for a, b in edges]) if edges else z3.BoolVal(False)))
    sel = z3.Int("k")
    keys = list(obl)
    cases = []
    UP, DP = z3.Int("use_pos"), z3.Int("def_pos")
    for k, (ub, db, dead_def, _) in enumerate(keys):
        u, v, up, dp = obl[keys[k]]
        at_use = z3.Or(*[z3.And(L == t, p[t] == ub) for t in range(n)])
        if dead_def:
            avoid = z3.BoolVal(True)          # the definition is never executed at all
        else:
            # the definition has not run: its block was not completed earlier on the path, and it does not precede the use in the final block
            avoid = z3.And(*[z3.Implies(t < L, p[t] != db) for t in range(n)])
            if ub == db:
                avoid = z3.And(avoid, z3.Not(DP < UP))
        cases.append(z3.And(sel == k, UP == up, DP == dp, at_use, avoid))
    s.add(z3.Or(*cases))
    t0 = time.time()
    r = s.check()
    dt = time.time() - t0
    if r == z3.unsat:
        return "unsat", None, dt
    if r == z3.sat:
        m = s.model()
        k = m[sel].as_long()
        ln = m[L].as_long()
        path = [m.eval(p[t], model_completion=True).as_long() for t in range(ln + 1)]
        u, v = obl[keys[k]][:2]
        return "sat", dict(use=u, operand=v, block_path=path), dt
    return "unknown", None, dt


def _paths_bfs(succ, src=0):
    seen, todo = {src}, [src]
    while todo:
        x = todo.pop()
        for y in succ.get(x, []):
            if y not in seen:
                seen.add(y)
                todo.append(y)
    return seen


def analyse(src, optimize):
    """-> list of (function name, problem text) and counters"""
    res = joint.compile_source(src, optimize=optimize)
    linked = joint.link(res)
    out, stats = [], dict(functions=0, queries=0, unsat=0, sat=0, unknown=0, pairs=0, solver_time=0.0, blocks=0)
    for name, fn in res.IRModule.Functions.items():
        stats["functions"] += 1
        problems, (nb, succ, live), pairs = check_function(fn, linked.Functions)
        for p in problems:
            out.append((name, "structure: " + p))
        reach = _paths_bfs(succ) if nb else set()
        pairs = [q for q in pairs if q[2][0] in reach]        # uses in unreachable blocks never execute
        stats["pairs"] += len(pairs)
        stats["blocks"] += nb
        if nb == 0 or any("targets a block" in p or "has no" in p for p in problems):
            continue
        r, wit, dt = solve_paths(nb, succ, live, pairs)
        stats["queries"] += 1
        stats["solver_time"] += dt
        stats[r] += 1
        if r == "sat":
            out.append((name, f"use before definition: %{wit['use']} reads %{wit['operand']} along the block path {wit['block_path']} on which %{wit['operand']} has not been computed"))
    return out, stats


def run_instance(inst):
    src = inst["source"]
    res = dict(paths=0, queries=0, unsat=0, sat=0, undecided=0, cut=0, violations=[], errors=[], nontrivial=False, known=[], solver_time=0.0)
    res["key"] = src
    res["funcs"] = FUNCS
    counters = dict(modules=0, functions=0, operand_pairs=0, blocks=0)
    for optimize in (False, True):
        try:
            problems, st = analyse(src, optimize)
        except joint.Rejected as e:
            if "may-reject" not in inst.get("tags", []):
                res["errors"].append(f"family member rejected (optimize={optimize}): {e}")
            else:
                res["nontrivial"] = True
            continue
        counters["modules"] += 1
        counters["functions"] += st["functions"]
        counters["operand_pairs"] += st["pairs"]
        counters["blocks"] += st["blocks"]
        res["queries"] += st["queries"]
        res["unsat"] += st["unsat"]
        res["sat"] += st["sat"]
        res["undecided"] += st["unknown"]
        res["solver_time"] += st["solver_time"]
        res["paths"] += st["functions"]
        if st["unsat"]:
            res["nontrivial"] = True
        seen = set()
        for fname, p in problems:
            k = p.split(":")[0] + p[-30:]
            if k in seen:
                continue
            seen.add(k)
            res["violations"].append(dict(what=f"IR of function '{fname}' (optimize={optimize}) is not well-formed -- {p}",
                                          replay=dict(harness="C14", inst=dict(source=src, name=inst.get("name")), optimize=optimize, function=fname, problem=p)))
    res["counters"] = counters
    res["sample"] = dict(name=inst.get("name"), source=src[:300], functions=counters["functions"], operand_pairs=counters["operand_pairs"])
    return res


FUNCS = ["nsl.Compiler.Compiler.Compile", "nsl.passes.LowerToIR.LowerToIRVisitor", "nsl.passes.RewriteFunctionArgAccess", "nsl.passes.OptimizeLoadAfterStore",
         "nsl.passes.OptimizeConstantCasts", "nsl.LinearIR.Function.RegisterValue", "nsl.LinearIR.Function.CreateConstant", "nsl.LinearIR.BasicBlock._Traverse",
         "nsl.LinearIR.BasicBlock.__Replace", "nsl.LinearIR.Function.ReplaceUses", "nsl.LinearIR.Linker.Link"]


def replay(spec):
    try:
        problems, _ = analyse(spec["inst"]["source"], spec.get("optimize", False))
    except joint.Rejected:
        return None
    kind = spec.get("problem", "").split(":")[0]
    hits = [p for f, p in problems if f == spec.get("function") and p.split(":")[0] == kind]
    return dict(problems=hits[:3]) if hits else None


def family(tier, seed):
    items = f2.all_templates() + core1.all_core() + f3.all_templates()
    f4items = [it for it in f4.family("quick") if not any(t.startswith("trigger:") for t in it.tags)]
    if tier == "quick":
        f4items = [it for k, it in enumerate(f4items) if not ({"swizzle-read", "swizzle-write"} & it.tags) or k % 4 == 0]
    items += f4items
    items += f1.generate(seed, 200 if tier == "quick" else 3000, depth=3, nmax=3)
    items += f3.random_calls(seed, 60 if tier == "quick" else 800)
    items += f4r.generate(seed, 100 if tier == "quick" else 1000)
    # calls with every argument / parameter type pair, wrong argument counts, unknown callees: whatever of this the front end lets
    # through must still name an existing function with the right number of arguments
    for it in f5.calls_and_returns() + f5.statements() + f5.stores():
        it.tags.add("may-reject")
        items.append(it)
    return items


def selftest():
    """negative twin: a hand-made CFG in which a use is reachable around its definition must come back sat"""
    # blocks: 0 -> 1 -> 3, 0 -> 2 -> 3 ; def in block 1, use in block 3
    succ = {0: [1, 2], 1: [3], 2: [3], 3: []}
    live = {0: 1, 1: 1, 2: 1, 3: 1}
    r, wit, _ = solve_paths(4, succ, live, [(10, 5, (3, 0), (1, 0))])
    r2, _, _ = solve_paths(4, succ, live, [(10, 5, (3, 0), (0, 0))])
    live2 = {0: 3, 1: 1, 2: 1, 3: 1}
    r3, _, _ = solve_paths(4, succ, live2, [(10, 5, (0, 2), (0, 1))])      # same block, definition first
    r4, _, _ = solve_paths(4, succ, live2, [(10, 5, (0, 1), (0, 2))])      # same block, use first
    return r == "sat" and wit["block_path"] == [0, 2, 3] and r2 == "unsat" and r3 == "unsat" and r4 == "sat"


def run(tier, seed, only=None):
    chk = core.Check(PID, "model_checking", tier, seed,
                     rule="one program per instance, compiled at both optimisation levels; per function one structural pass and one z3 query over all (use, operand) pairs. "
                          "Distinct = distinct source text; non-trivial = at least one function's path query was discharged (unsat)")
    items = family(tier, seed)
    if only:
        items = [i for i in items if only in i.name or only in i.tags]
    famcheck.describe(chk, items, tier)
    chk.assumptions = ["CFG semantics taken from the VM: explicit branches, fall-through to the next block, nothing executes after a terminator",
                       "a path violating definition-before-use can be shortened to a simple path, so the path-length bound (number of blocks) is complete per function"]
    chk.shims = []
    chk.bounds = {"family": "IR modules of F2 + F1 core/random + F3 + F4 at optimize off and on", "path_length": "number of basic blocks of the function (complete)",
                  "outside": "modules of programs outside the families; named local variables (they are not operands)"}
    if not selftest():
        chk.errors.append("negative twin of the path encoding was not refuted")
    results = core.run_pool("vlib.harness.C14", "run_instance", [famcheck.pack(i) for i in items])
    famcheck.dedupe(results)
    chk.absorb_all(results)
    return chk.finish()
