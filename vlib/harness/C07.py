"""C07 -- every emitted WebAssembly binary is well-formed and valid.

For every member of the wasm families (straight-line subset S, module shapes, programs outside
S) the real GenerateWasm pass and the real Module.WriteTo run on IR whose integer constants are
symbolic over the whole 32-bit range; the byte string (with symbolic bytes) is decoded and
validated by the reference decoder / validator O2 inside the same exploration.  Every path
either ends in a reported error (refusal) or in a module that O2 accepts for all constant
values of the path; a path that ends in Malformed / Invalid yields a z3 witness which is
compiled through the public API and handed to wasmtime.
"""
from .. import core
from . import wasmfam, wasmcheck

PID = "C07"


HISTORIES = [["g0", "r0", "g1"], ["r1", "g1", "g2"], ["g3", "r2", "r3", "g0"], ["r0", "r1", "g4", "g1"], ["g1", "g2", "g3", "g4", "g0"], ["r4", "g2"], ["g0", "r4", "g3", "r1", "g1"],
             ["r2", "g4", "r0", "g2", "r3", "g3"]]


def run_instance(inst):
    if "order" in inst:
        return wasmcheck.run_history(inst, "validity")
    return wasmcheck.run_program(inst, "validity")


def replay(spec):
    return wasmcheck.replay(spec)


def run(tier, seed, only=None):
    chk = core.Check(PID, "model_checking", tier, seed,
                     rule="one program per instance; integer constants symbolic over [-2^31, 2^31). Distinct = distinct source text; non-trivial = the backend refused with an error, or "
                          ">= 1 path produced a module the reference validator accepts for every constant value of that path")
    insts = wasmfam.family_s(tier, seed) + wasmfam.family_shapes(tier, seed) + wasmfam.family_outside(tier, seed)
    if only:
        insts = [i for i in insts if only in i["name"] or only in i["tags"]]
    else:
        insts += [dict(order=h, name="history " + " ".join(h), tags=["history"]) for h in HISTORIES]
    chk.assumptions = ["O2 (vlib/wasmref.py) implements WebAssembly 1.0 decoding and validation for the sections and instructions the writer can emit; cross-checked with wasmtime on "
                       "hand-assembled modules at start-up and on every reported counterexample", "paths are distinguished by the LEB128 length of each symbolic constant"]
    chk.shims = ["nsl.WebAssembly.bytes", "nsl.WebAssembly.io.BytesIO", "nsl.WebAssembly.len", "ConstantValue payload replaced by a symbolic integer after lowering",
                 "observation wrappers around GenerateWasmVisitor.v_Visit and Code.AddInstruction"]
    chk.bounds = {"family": "S: all expressions of depth <= 2 over two parameters and a constant, 7 int / 4 float operators, plus sampled depth-3 expressions; shapes: every parameter list of "
                            "0-4 int/float parameters with int, float and void results, mixed-type temporaries, 2-4 functions in sampled orders, a 130-byte export name; outside: 150 sampled "
                            "(quick) / all F1-core and F3 programs and unsupported operators", "outside": "programs outside the families; sections the writer never emits"}
    results = core.run_pool("vlib.harness.C07", "run_instance", insts)
    probs = wasmfam.selftest()          # after the pool: wasmtime starts threads, which must not exist when the workers are forked
    if probs:
        chk.errors += ["reference validator disagrees with wasmtime: " + p for p in probs]
    from . import famcheck
    famcheck.dedupe(results, limit=3)
    chk.absorb_all(results)
    chk.funcs.update(wasmcheck.FUNCS)
    return chk.finish()
