"""C11 -- break and continue are accepted exactly inside loops.

Harness A (one inductive step, solver over the loop depth): the real
ValidateFlowStatementVisitor method of every statement node kind is executed with a
symbolic incoming depth d >= 0 and stub children recording the depth they are
visited with.  Obligations per kind: loop bodies get d+1, everything else d, each
child exactly once, break/continue rejected iff d == 0.  By induction on the tree:
reject <=> some break/continue has no loop ancestor (paper argument, DESIGN.md 5/C11).

Harness B (concrete gate + replay channel): every statement tree up to N nodes is
compiled through the public API and accept/reject is compared with "every
break/continue has a loop ancestor".
"""
import io
import contextlib
import z3
from .. import symx, core, unit
from ..symx import SymNum

PID = "C11"

KINDS = ["compound", "if", "ifelse", "for", "while", "do", "break", "continue", "expression", "declaration", "return", "empty",
         "for-empty-body", "while-empty-body"]


def _mk(kind):
    from nsl import ast, types

    class Stub(ast.Statement):
        """Leaf standing for an arbitrary sub-tree; records the context it is visited with."""

        def __init__(self):
            super().__init__()
            self.seen = []

    s1, s2 = Stub(), Stub()
    lit = lambda: ast.LiteralExpression(1, types.Integer())  # noqa: E731
    n = {
        "compound": lambda: ast.CompoundStatement([s1, s2]),
        "if": lambda: ast.IfStatement(lit(), s1),
        "ifelse": lambda: ast.IfStatement(lit(), s1, s2),
        "for": lambda: ast.ForStatement(ast.VariableDeclaration(types.Integer(), "i", lit()), lit(), ast.EmptyExpression(), s1),
        "while": lambda: ast.WhileStatement(lit(), s1),
        "do": lambda: ast.DoStatement(lit(), ast.CompoundStatement([s1, s2])),
        "break": lambda: ast.BreakStatement(),
        "continue": lambda: ast.ContinueStatement(),
        "expression": lambda: ast.ExpressionStatement(lit()),
        "declaration": lambda: ast.DeclarationStatement([ast.VariableDeclaration(types.Integer(), "q")]),
        "return": lambda: ast.ReturnStatement(lit()),
        "empty": lambda: ast.EmptyStatement(),
        "for-empty-body": lambda: ast.ForStatement(None, lit(), ast.EmptyExpression(), ast.CompoundStatement([])),
        "while-empty-body": lambda: ast.WhileStatement(lit(), ast.EmptyStatement()),
    }[kind]()
    return n, s1, s2


EXPECT = {  # kind -> (children that must be visited [(stub index, depth offset)], rejects at depth 0)
    "compound": ([(0, 0), (1, 0)], False), "if": ([(0, 0)], False), "ifelse": ([(0, 0), (1, 0)], False),
    "for": ([(0, 1)], False), "while": ([(0, 1)], False), "do": ([(0, 1), (1, 1)], False),
    "break": ([], True), "continue": ([], True), "expression": ([], False), "declaration": ([], False),
    "return": ([], False), "empty": ([], False), "for-empty-body": ([], False), "while-empty-body": ([], False),
}


def _step(inst):
    from nsl import Errors
    from nsl.passes.ValidateFlowStatements import ValidateFlowStatementVisitor as V
    kind = inst["kind"]
    d = z3.Int("d")
    pre = d >= 0

    class Probe(V):
        def v_Stub(self, n, ctx):
            n.seen.append(ctx)

    def fn():
        n, s1, s2 = _mk(kind)
        v = Probe()
        v.SetErrorHandler(Errors.ErrorHandler())
        raised = False
        try:
            v.v_Visit(n, SymNum(d))
        except Errors.CompileException:
            raised = True
        return raised, bool(v.valid), list(s1.seen), list(s2.seen)

    def spec(val, off_loop=1):
        raised, valid, seen1, seen2 = val
        kids, rejects0 = EXPECT[kind]
        conds = []
        seen = [seen1, seen2]
        for idx in (0, 1):
            want = [off for (i, off) in kids if i == idx]
            conds.append(z3.BoolVal(len(seen[idx]) == len(want)))
            if len(seen[idx]) == len(want):
                for got, off in zip(seen[idx], want):
                    conds.append(symx.term(got) == d + (off_loop if off else 0))
        rejected = raised or not valid
        if rejects0:
            conds.append(z3.BoolVal(rejected) == (d == 0))
        else:
            conds.append(z3.BoolVal(not rejected))
        return z3.And(*conds)

    twin = None
    if kind in ("for", "while", "do"):
        twin = lambda val: spec(val, off_loop=0)  # noqa: E731  wrong oracle: loop bodies at depth d
    if kind in ("break", "continue"):
        twin = lambda val: z3.BoolVal(val[0] or not val[1]) == (d <= 1)  # noqa: E731
    return unit.decide(fn, pre, spec, inst=inst, harness="C11", replay=replay, twin=twin)


# -- harness B: statement trees through the public API --------------------------------------------
def gen_trees(n):
    """All statement trees with exactly n nodes (as nested tuples)."""
    if n <= 0:
        return
    if n == 1:
        yield ("break",)
        yield ("continue",)
        yield ("expr",)
        yield ("ret",)
        yield ("block",)
        return
    # unary wrappers
    for sub in gen_trees(n - 1):
        for k in ("if", "for", "while", "do"):
            yield (k, sub)
    for a in range(1, n - 1):
        for s1 in gen_trees(a):
            for s2 in gen_trees(n - 1 - a):
                yield ("ifelse", s1, s2)
                yield ("block", s1, s2)
    for sub in gen_trees(n - 1):
        yield ("block", sub)


def render(t):
    k = t[0]
    if k == "break":
        return "break;"
    if k == "continue":
        return "continue;"
    if k == "expr":
        return "x = x + 1;"
    if k == "ret":
        return "return x;"          # statements after it are unreachable, and checked like any other
    if k == "block":
        return "{ " + " ".join(render(s) for s in t[1:]) + " }"
    if k == "if":
        return f"if (c > 0) {render(t[1])}"
    if k == "ifelse":
        then = render(t[1])
        if _open_if(t[1]):      # avoid the dangling else: the else must bind to this if
            then = "{ " + then + " }"
        return f"if (c > 0) {then} else {render(t[2])}"
    if k == "for":
        return f"for (int i = 0; i < c; ++i) {render(t[1])}"
    if k == "while":
        return f"while (x < c) {render(t[1])}"
    if k == "do":
        body = render(t[1])
        if not body.startswith("{"):
            body = "{ " + body + " }"
        return f"do {body} while (x < c)"
    raise ValueError(k)


def _open_if(t):
    k = t[0]
    if k == "if":
        return True
    if k == "ifelse":
        return _open_if(t[2])
    if k in ("for", "while"):
        return _open_if(t[1])
    return False


def legal(t, in_loop=False):
    k = t[0]
    if k in ("break", "continue"):
        return in_loop
    if k in ("for", "while", "do"):
        return all(legal(s, True) for s in t[1:])
    return all(legal(s, in_loop) for s in t[1:])


def has_flow(t):
    return t[0] in ("break", "continue") or any(has_flow(s) for s in t[1:])


def dup_for(t, inside_for=False):
    """`for (int i ...)` nested in another for redeclares i -- rejected for a different reason (C12)."""
    if t[0] == "for":
        if inside_for:
            return True
        return any(dup_for(s, True) for s in t[1:])
    return any(dup_for(s, inside_for) for s in t[1:])


def program(t):
    return "export function f(int c, int x) -> int { " + render(t) + " return x; }"


def compile_accepts(src):
    from nsl import Compiler
    out = io.StringIO()
    try:
        with contextlib.redirect_stdout(out), contextlib.redirect_stderr(out):
            r = Compiler.Compiler().Compile(src)
        return r is not None
    except SystemExit:
        return None
    except Exception:  # noqa: BLE001
        return False


def _trees(inst):
    res = dict(paths=0, queries=0, unsat=0, sat=0, violations=[], errors=[], nontrivial=True)
    bad = []
    for idx, t in enumerate(gen_trees(inst["nodes"])):
        if idx % inst.get("of", 1) != inst.get("shard", 0):
            continue
        if not has_flow(t) or dup_for(t):
            continue
        res["paths"] += 1
        src = program(t)
        got = compile_accepts(src)
        if got is None:
            res["errors"].append(f"generated program does not parse: {src}")
            continue
        want = legal(t)
        if got != want:
            bad.append(dict(source=src, expected="accept" if want else "reject", observed="accept" if got else "reject"))
    for b in bad[:5]:
        res["violations"].append(dict(what=f"break/continue placement misjudged: {b}",
                                      replay=dict(harness="C11", inst=dict(part="tree"), source=b["source"], expect=b["expected"] == "accept")))
    return res


def replay(spec):
    inst = spec["inst"]
    if "source" in inst and "fname" in inst:      # semantics part (program-family replay)
        from . import famcheck
        return famcheck.replay(spec)
    if inst.get("part") == "tree":
        got = compile_accepts(spec["source"])
        return None if got == spec["expect"] else dict(source=spec["source"], accepted=got)
    if inst.get("part") == "step":
        # render the one-step counterexample as a program: d nested loops around the node
        d = spec.get("inputs", {}).get("d", 0)
        if d > 40:
            return None
        kind = inst["kind"]
        body = {"compound": "{ break; x = x + 1; }", "if": "if (c > 0) break;", "ifelse": "if (c > 0) x = x + 1; else continue;",
                "for": "for (int j = 0; j < c; ++j) break;", "while": "while (x < c) continue;", "do": "do { x = x + 1; break; } while (x < c)",
                "break": "break;", "continue": "continue;", "expression": "x = x + 1;", "declaration": "int q;", "return": "return x;",
                "empty": "while (x < c) ;", "for-empty-body": "for (; x < c; ++x) { }", "while-empty-body": "while (x < c) ;"}[kind]
        inner_loop = kind in ("for", "while", "do")
        src = body
        for i in range(d):
            src = f"while (x < c) {{ {src} }}"
        src = "export function f(int c, int x) -> int { " + src + " return x; }"
        want = (d > 0) or inner_loop or kind in ("expression", "declaration", "return", "empty", "for-empty-body", "while-empty-body")
        got = compile_accepts(src)
        return None if got == want else dict(source=src, expected=want, accepted=got)
    return None


def run_instance(inst):
    if inst["part"] == "semantics":
        # an accepted break / continue refers to the innermost enclosing loop: the loop programs of the scalar core set on the
        # real VM with symbolic inputs against the reference interpreter (same machinery as C01)
        from . import famcheck
        return famcheck.run_item(inst["item"], harness="C11")
    r = _step(inst) if inst["part"] == "step" else _trees(inst)
    r["sample"] = dict(inst)
    r["key"] = repr(sorted(inst.items()))
    r["funcs"] = (["nsl.passes.ValidateFlowStatements.ValidateFlowStatementVisitor.v_" + n for n in
                   ("DoStatement", "ForStatement", "WhileStatement", "ContinueStatement", "BreakStatement")] +
                  ["nsl.Visitor.Visitor.v_Generic", "nsl.Visitor.DefaultVisitor.v_Default", "nsl.Visitor.Node.AcceptVisitor"]) \
        if inst["part"] == "step" else ["nsl.Compiler.Compiler.Compile", "nsl.passes.ValidateFlowStatements.GetPass"]
    return r


def run(tier, seed, only=None):
    chk = core.Check(PID, "model_checking", tier, seed,
                     rule="harness A: one instance per statement node kind, symbolic incoming loop depth d >= 0 (unbounded); "
                          "harness B: every statement tree with the stated node counts containing a break/continue (exhaustive, concrete). "
                          "Non-trivial = a query mentioning d was discharged, or a tree with a break/continue was compiled")
    chk.bounds = {"A": "loop depth d >= 0 unbounded; node kinds: " + ", ".join(KINDS),
                  "B": f"statement trees with 1..{5 if tier == 'quick' else 7} nodes over break, continue, return, expression, block, if, if/else, for, while, do" + ("" if tier == "quick" else " (all trees up to 6 nodes, 22 of 64 enumeration shards of the 7-node trees)"),
                  "semantics": "the loop programs of the scalar core set (every loop form x break / continue / both / nested in if; every nesting of two loop forms with break or continue "
                               "in the inner and in the outer loop) on the real VM with symbolic inputs against the reference interpreter",
                  "outside": "switch (not in the grammar); the induction over tree depth is a paper argument"}
    chk.assumptions = ["induction step composes: a tree is rejected iff some node's visit rejects (DESIGN.md C11)",
                       "stub children stand for arbitrary sub-trees (visitor dispatch is by class name only)"]
    insts = [dict(part="step", kind=k) for k in KINDS]
    for n in range(1, (5 if tier == "quick" else 7) + 1):
        of = 1 if n <= 4 else (16 if n <= 6 else 64)
        # 7 nodes: about a million trees since `return` is a leaf; every third shard (a 3/8 sample by position in the enumeration)
        insts += [dict(part="trees", nodes=n, shard=s, of=of) for s in (range(of) if n < 7 else range(0, of, 3))]
    from ..gen import core1
    from . import famcheck
    insts += [dict(part="semantics", item=famcheck.pack(it)) for it in core1.loops()]
    insts = [i for i in insts if only in (None, i["part"])]
    results = core.run_pool("vlib.harness.C11", "run_instance", insts, chunksize=1)
    for inst, r in zip(insts, results):
        chk.absorb(r, part=inst["part"])
    chk.exhaustive = False
    return chk.finish()
