"""Shared plumbing of the program-family checks: an instance is the *source text* of a family
member (plus entry point and input assumptions); the worker re-parses it with our own parser
(nslref.parse), so that replay files are self-contained."""
import collections
import z3
from .. import core, shims
from ..nslref import ast as A
from ..nslref import joint
from ..nslref.parse import parse
from . import progcheck

SMALL = 256


def pack(item, **extra):
    d = dict(source=item.src(), fname=item.fname, bounds={k: list(v) for k, v in item.bounds.items()}, small=bool(item.small),
             name=item.name, tags=sorted(item.tags))
    d.update(extra)
    return d


def leaves(v):
    if isinstance(v, (list, tuple)):
        for x in v:
            yield from leaves(x)
    elif isinstance(v, dict):
        for x in v.values():
            yield from leaves(x)
    else:
        yield v


def make_pre(inst):
    def extra_pre(args, gvals):
        cs = []
        for name, (lo, hi) in inst.get("bounds", {}).items():
            v = args.get(name, gvals.get(name))
            if v is None:
                continue
            for x in leaves(v):
                cs.append(z3.And(x.e >= lo, x.e <= hi))
        if inst.get("small"):
            for v in list(args.values()) + list(gvals.values()):
                for x in leaves(v):
                    if hasattr(x, "e"):
                        cs.append(z3.And(x.e >= -SMALL, x.e <= SMALL))
        return cs
    return extra_pre


def attribute(res, inst, pid):
    """Known findings of program families are identified by a trigger (operator and operand kinds, carried by the family member as a
    tag `trigger:<op>:<kindL>,<kindR>`; such members contain nothing but the triggering operation) plus the symptom (how it fails).
    A failure of a member without the trigger, or with another symptom, stays a violation."""
    trig = [t.split(":")[1:] for t in inst.get("tags", []) if t.startswith("trigger:")]
    if not trig or not res.get("violations"):
        return
    findings = [f for f in core.load_findings(pid) if f.get("kind") == "program-op"]
    rest = []
    for v in res["violations"]:
        hit = None
        for f in findings:
            tr, sy = f.get("trigger", {}), f.get("symptom", {})
            for op, kinds in trig:
                if op in tr.get("ops", []) and kinds.split(",") in tr.get("kinds", []):
                    if sy.get("kind") == "rejected" and v.get("rejected") and v.get("exc") == sy.get("exc") and v.get("where") == sy.get("where"):
                        hit = f
                    elif sy.get("kind") == "wrong-value" and (v["what"].startswith("VM result") or v["what"].startswith("VM failed with " + sy.get("exc", "TypeError"))):
                        hit = f
        if hit:
            res.setdefault("known", []).append(dict(id=hit["id"], what=hit["what"]))
        else:
            rest.append(v)
    res["violations"] = rest


def run_item(inst, harness, optimize=False, **kw):
    prog = parse(inst["source"])
    res = progcheck.check_program(prog, inst["fname"], harness=harness, inst=inst, extra_pre=make_pre(inst), optimize=optimize, **kw)
    attribute(res, inst, harness)
    res["sample"] = dict(name=inst.get("name"), source=inst["source"][:400], paths=res["paths"], queries=res["queries"])
    res["key"] = inst["source"] + "@" + inst["fname"]
    res["tags"] = inst.get("tags", [])
    res["funcs"] = FUNCS
    return res


FUNCS = ["nsl.Compiler.Compiler.Compile", "nsl.parser.NslParser.Parse", "nsl.passes.RewriteAssignEqualOperations", "nsl.passes.ComputeTypes",
         "nsl.passes.AddImplicitCasts", "nsl.passes.LowerToIR.LowerToIRVisitor", "nsl.passes.RewriteFunctionArgAccess", "nsl.LinearIR.Linker.Link",
         "nsl.VM.VirtualMachine.Invoke", "nsl.VM.VirtualMachine.SetGlobal", "nsl.VM.VirtualMachine.GetGlobal", "nsl.VM.ExecutionContext.__Execute"]


def replay(spec):
    inst = spec["inst"]
    prog = parse(inst["source"])
    kind = spec.get("kind", "values")
    if kind == "values":
        return progcheck.replay_values(prog, inst["fname"], spec.get("inputs", {}), optimize=spec.get("optimize", False))
    if kind == "rejected":
        try:
            joint.link(joint.compile_source(prog.src(), optimize=spec.get("optimize", False)))
            return None
        except joint.Rejected as ex:
            return dict(source=prog.src(), rejected=str(ex))
    return None


def describe(chk, items, tier):
    hist = collections.Counter()
    nodes = collections.Counter()
    for it in items:
        for t in it.tags:
            hist[t] += 1
        for n in A.walk(it.prog):
            nodes[type(n).__name__] += 1
            if isinstance(n, A.Bin):
                nodes["op " + n.op] += 1
    chk.extra["family_tags"] = dict(hist)
    chk.extra["family_node_kinds"] = dict(nodes)
    chk.bounds.update({"inputs": "ints over the signed 32-bit range (programs multiplying/dividing two non-literals: [-%d, %d]); floats as reals; loop trip "
                                 "parameters and index parameters bounded as given per program" % (SMALL, SMALL),
                       "decisions_per_path": 160, "paths_per_program": 600})
    chk.assumptions += ["z3 Int/Real model of Python int/float (rounding abstracted)", "reference interpreter vlib/nslref/interp.py (O1), validated on tests/test_vm.py",
                        "domain assumptions placed by O1 before the VM runs: int intermediates in the 32-bit range, divisor != 0, index in range, % operands >= 0"]
    chk.shims += ["nsl.VM.float", "nsl.VM.int"]


def o1_selftest(chk):
    from ..nslref import selftest
    ok, total, fails = selftest.run()
    chk.extra["o1_validation"] = dict(repo_tests_run_against_O1=total, agree=ok, disagree=fails[:5])
    if fails:
        chk.errors.append(f"reference interpreter disagrees with the repository's own VM tests: {fails[:3]}")


def dedupe(results, limit=4):
    seen = {}
    for r in results:
        keep = []
        for v in r.get("violations", []):
            k = v["what"].split(";")[0][:70]
            seen[k] = seen.get(k, 0) + 1
            if seen[k] <= limit:
                keep.append(v)
        r["violations"] = keep
    return seen
