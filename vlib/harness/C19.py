"""C19 -- Wasm writer: integers, names and section sizes decode to what was written.

The real nsl.WebAssembly writer functions are executed on symbolic integers
(proxy values); the produced byte items are read back by the reference LEB128 /
binary decoder of vlib.wasmref inside the same exploration, and for every path
z3 is asked for an input whose decoded value differs from what was written.
"""
import z3
from .. import symx, shims, wasmref, core, unit
from ..symx import SymNum, Engine
from ..shims import ShimBuf, FakeStr, Chunk

PID = "C19"
U32 = 2 ** 32


def _explore(fn, pre, inst, good, twin=None, max_decisions=200):
    return unit.decide(fn, pre, good, inst=inst, harness="C19", replay=replay, twin=twin, max_decisions=max_decisions,
                       setup=shims.install_wasm, around_replay=shims.no_wasm_shims)


# -- part A: PackInteger, unsigned ---------------------------------------------------
def _pack_unsigned(inst):
    from nsl import WebAssembly as W
    v = z3.Int("v")
    pre = z3.And(v >= inst["lo"], v < inst["hi"])

    def fn():
        items = W.PackInteger(SymNum(v))
        r = wasmref.Reader(items)
        d = r.uleb(32)
        return d, r.eof(), [symx.lift(b).e for b in items]

    def good(val):
        d, eof, items = val
        wf = [z3.And(b >= 0, b <= 255) for b in items]
        return z3.And(symx.term(d) == v, z3.BoolVal(eof), *wf)

    def twin(val):  # wrong oracle (the decoded value is one more than what was written): must be refutable whatever correct encoding is used
        d, eof, items = val
        return symx.term(d) == v + 1

    return _explore(fn, pre, inst, good, twin if inst.get("twin") else None)


# -- part B: i32.const immediate, signed ----------------------------------------------
def _i32_const(inst):
    from nsl import WebAssembly as W
    v = z3.Int("v")
    pre = z3.And(v >= inst["lo"], v < inst["hi"])

    def fn():
        buf = ShimBuf()
        # the instruction is built where the generator builds it: _GenerateConstant on an integer constant of the IR
        from nsl import LinearIR
        from nsl.passes import GenerateWasm
        GenerateWasm._GenerateConstant(LinearIR.ConstantValue(LinearIR.IntegerType(), SymNum(v))).WriteTo(buf)
        r = wasmref.Reader(buf.data)
        op = r.cbyte()
        d = r.sleb(32)
        return op, d, r.eof()

    def good(val):
        op, d, eof = val
        return z3.And(z3.BoolVal(op == 0x41), symx.term(d) == v, z3.BoolVal(eof))

    return _explore(fn, pre, inst, good)


def make_string(nchars, nbytes):
    """a str with the given number of code points and UTF-8 bytes (nchars <= nbytes <= 4 nchars)"""
    nchars = max(0, min(nchars, nbytes))
    extra = nbytes - nchars
    out = []
    for _ in range(nchars):
        k = min(3, extra)
        extra -= k
        out.append(["n", "\u00e9", "\u0939", "\U0001F600"][k])
    return "".join(out)


# -- part C: names ---------------------------------------------------------------------
def _name_symbolic(inst):
    from nsl import WebAssembly as W
    L = z3.Int("L")
    C = z3.Int("C")
    idx = z3.Int("idx")
    # a str of C code points whose UTF-8 encoding has L bytes: C <= L <= 4 C
    pre = z3.And(L >= 0, L < U32, C >= 0, C <= L, L <= 4 * C, idx >= 0, idx < U32)

    def fn():
        buf = ShimBuf()
        W.Export(SymNum(idx), FakeStr(SymNum(L), nchars=SymNum(C))).WriteTo(buf)
        r = wasmref.Reader(buf.data)
        nm = r.name()          # raises Malformed when prefix != byte length
        kind = r.cbyte()
        i = r.uleb(32)
        return nm, kind, i, r.eof()

    def good(val):
        nm, kind, i, eof = val
        return z3.And(z3.BoolVal(isinstance(nm, Chunk)), symx.term(nm.length) == L, z3.BoolVal(kind == 0),
                      symx.term(i) == idx, z3.BoolVal(eof))

    return _explore(fn, pre, inst, good)


NAMES = ["f", "main", "", "a" * 127, "b" * 128, "c" * 129, "é", "é" * 64, "€", "€" * 43,
         "\U0001F600", "xé€\U0001F600", "é" * 63 + "z", "_" * 16384, "naïve_中文"]


def _name_concrete(inst):
    """Bounded, non-symbolic part: C-level str.encode cannot take a symbolic string."""
    from nsl import WebAssembly as W
    import io
    res = dict(paths=0, queries=0, unsat=0, sat=0, violations=[], errors=[], nontrivial=True)
    for s in NAMES:
        buf = io.BytesIO()
        W.WriteString(buf, s)
        r = wasmref.Reader(list(buf.getvalue()))
        try:
            back = r.name()
            ok = back == s and r.eof()
        except wasmref.Malformed as e:
            back, ok = repr(e), False
        res["paths"] += 1
        if not ok:
            spec = dict(harness="C19", part="name-concrete", name=s)
            res["violations"].append(dict(what=f"name {s[:20]!r} (len {len(s)}) read back as {str(back)[:40]!r}", replay=spec))
    return res


# -- part D: section and body framing -----------------------------------------------------
def _build_module(inst, V):
    """Build a real WebAssembly.Module through its public API; V maps variable names to
    values (proxies in the symbolic run, ints in the replay)."""
    from nsl import WebAssembly as W
    m = W.Module()
    VT = W.ValueType
    shape = inst["shape"]
    t0 = m.AddFunctionType(W.FunctionType([VT.i32, VT.f32], [VT.i32]))
    t1 = m.AddFunctionType(W.FunctionType([], [VT.f32]))
    if shape == "export":
        m.AddFunction(t0)
        m.AddExport(W.Export(V["idx"], V["name"]))
        m.AddExport(W.Export(0, "second"))
        c = W.Code()
        c.AddInstruction(W.Instruction(W.opcodes["i32.const"], (7,)))
        m.AddCode(c)
    elif shape == "function":
        m.AddFunction(V["t0"])
        m.AddFunction(V["t1"])
        m.AddFunction(t1)
    elif shape == "code":
        m.AddFunction(t0)
        c = W.Code()
        c.AddLocal(W.Local(VT.i32, V["n"]))
        c.AddInstruction(W.Instruction(W.opcodes["i32.const"], (V["k"],)))
        c.AddInstruction(W.Instruction(W.opcodes["local.set"], (V["i"],)))
        c.AddInstruction(W.Instruction(W.opcodes["local.get"], (0,)))
        m.AddCode(c)
        c2 = W.Code()
        c2.AddInstruction(W.Instruction(W.opcodes["local.get"], (1,)))
        m.AddCode(c2)
    elif shape == "table":
        m.AddTable(W.Table(V["size"]))
        m.AddFunction(t1)
        c = W.Code()
        c.AddInstruction(W.Instruction(W.opcodes["i32.const"], (V["k"],)))
        m.AddCode(c)
    return m


_SHAPE_VARS = {
    # the name length is bounded so that the section payload itself still fits a u32 size field
    "export": [("idx", 0, U32), ("L", 0, 2 ** 29)],
    "function": [("t0", 0, U32), ("t1", 0, U32)],
    "code": [("n", 1, U32), ("k", -2 ** 31, 2 ** 31), ("i", 0, U32)],
    "table": [("size", 0, U32), ("k", -2 ** 31, 2 ** 31)],
}


def _check_decoded(inst, m, V, conc):
    """Compare the decoded module with what was handed to the writer.  Returns a list of
    (description, condition) -- conditions are z3 Bools (symbolic) or Python bools (replay)."""
    shape = inst["shape"]
    eq = (lambda a, b: a == b) if conc else (lambda a, b: symx.term(a) == symx.term(b))
    out = [("two function types", len(m.types) == 2)]
    if shape == "export":
        out += [("export count", len(m.exports) == 2)]
        if len(m.exports) == 2:
            nm, kind, idx = m.exports[0]
            out += [("export index", eq(idx, V["idx"])), ("export kind", kind == 0)]
            if conc:
                out += [("export name", nm == V["name"])]
            else:
                out += [("export name length", eq(nm.length, V["L"]) if isinstance(nm, Chunk) else False)]
            out += [("second export", m.exports[1][0] == "second")]
    elif shape == "function":
        out += [("function count", len(m.funcs) == 3)]
        if len(m.funcs) == 3:
            out += [("type index 0", eq(m.funcs[0], V["t0"])), ("type index 1", eq(m.funcs[1], V["t1"]))]
    elif shape == "code":
        out += [("code count", len(m.codes) == 2)]
        if len(m.codes) == 2:
            locs, body = m.codes[0]
            out += [("one local group", len(locs) == 1)]
            if len(locs) == 1:
                out += [("local count", eq(locs[0][0], V["n"])), ("local type", locs[0][1] == 0x7F)]
            names = [b[0] for b in body]
            out += [("instruction list", names == ["i32.const", "local.set", "local.get", "end"])]
            if names == ["i32.const", "local.set", "local.get", "end"]:
                out += [("i32.const immediate", eq(body[0][1][0], V["k"])), ("local.set immediate", eq(body[1][1][0], V["i"]))]
    elif shape == "table":
        out += [("table count", len(m.tables) == 1)]
        if len(m.tables) == 1:
            out += [("table min", eq(m.tables[0][0], V["size"])), ("no max", m.tables[0][1] is None)]
        if len(m.codes) == 1:
            out += [("i32.const immediate", eq(m.codes[0][1][0][1][0], V["k"]))]
        else:
            out += [("code count", False)]
    return out


def _framing(inst):
    vars_ = _SHAPE_VARS[inst["shape"]]
    zs = {n: z3.Int(n) for n, _, _ in vars_}
    pre = z3.And(*[z3.And(zs[n] >= lo, zs[n] < hi) for n, lo, hi in vars_])

    def fn():
        V = {n: SymNum(z) for n, z in zs.items()}
        if "L" in V:
            V["name"] = FakeStr(V["L"])
        mod = _build_module(inst, V)
        buf = ShimBuf()
        mod.WriteTo(buf)
        dec = wasmref.decode(buf.data)     # size fields are checked against payload lengths here
        return _check_decoded(inst, dec, V, conc=False)

    def good(val):
        return z3.And(*[c if z3.is_expr(c) else z3.BoolVal(bool(c)) for _, c in val])

    twin = None
    return _explore(fn, pre, inst, good, twin, max_decisions=400)


# -- part E: lemma for the Real abstraction of math.ceil(bits / 7) ---------------------------
def _ceil_lemma(inst):
    import math
    res = dict(paths=0, queries=0, unsat=0, sat=0, violations=[], errors=[], nontrivial=True)
    for bits in range(0, 65):
        res["paths"] += 1
        if math.ceil(bits / 7) != -((-bits) // 7):
            res["errors"].append(f"float ceil(bits/7) differs from exact ceiling at bits={bits}: Real abstraction unsound")
    return res


PARTS = {"pack-unsigned": _pack_unsigned, "i32.const": _i32_const, "name-symbolic": _name_symbolic,
         "name-concrete": _name_concrete, "framing": _framing, "ceil-lemma": _ceil_lemma}



def run_instance(inst):
    r = (_history if inst["part"] == "history" else PARTS[inst["part"]])(inst)
    r["sample"] = {k: v for k, v in inst.items()}
    r["key"] = repr(sorted(inst.items()))
    r["funcs"] = FUNCS.get(inst["part"], [])
    return r


FUNCS = {
    "pack-unsigned": ["nsl.WebAssembly.PackInteger"],
    "i32.const": ["nsl.WebAssembly.Instruction.WriteTo", "nsl.WebAssembly.WriteInteger", "nsl.WebAssembly.PackInteger",
                  "nsl.WebAssembly.WriteByte"],
    "name-symbolic": ["nsl.WebAssembly.Export.WriteTo", "nsl.WebAssembly.WriteString", "nsl.WebAssembly.PackString",
                      "nsl.WebAssembly.WriteInteger", "nsl.WebAssembly.PackInteger"],
    "name-concrete": ["nsl.WebAssembly.WriteString", "nsl.WebAssembly.PackString"],
    "framing": ["nsl.WebAssembly.Module.WriteTo", "nsl.WebAssembly.TypeSection.WriteTo", "nsl.WebAssembly.FunctionSection.WriteTo",
                "nsl.WebAssembly.TableSection.WriteTo", "nsl.WebAssembly.ExportSection.WriteTo", "nsl.WebAssembly.CodeSection.WriteTo",
                "nsl.WebAssembly.Code.Encode", "nsl.WebAssembly.Code.AddLocal", "nsl.WebAssembly.Local.WriteTo",
                "nsl.WebAssembly.Instruction.WriteTo", "nsl.WebAssembly.FunctionType.WriteTo", "nsl.WebAssembly.Table.WriteTo"],
}


def _history(inst):
    """concrete gate: the packers called in a realistic order within ONE process -- every boundary value first as a count / size /
    index (unsigned) and then as an i32.const immediate (signed), and a second set in the opposite order; each byte string must
    decode to the value under the reader the format prescribes at that place"""
    import io as _io
    from nsl import WebAssembly as W, LinearIR
    from nsl.passes import GenerateWasm
    res = dict(paths=0, queries=0, unsat=0, sat=0, violations=[], errors=[], nontrivial=True)
    vals = sorted({0, 1, 2, 63, 64, 65, 66, 100, 127, 128, 129, 255, 256, 8191, 8192, 8193, 16383, 16384, 1048575, 1048576, 2097151, 2097152,
                   134217727, 134217728, 268435455, 268435456, 2 ** 31 - 1})
    bad = []

    def unsigned(v):
        bs = list(W.PackInteger(v))
        r = wasmref.Reader(bs)
        d = r.uleb(32)
        return None if (d == v and r.eof()) else dict(kind="unsigned", v=v, bytes=bs, decoded=d)

    def signed(v):
        buf = _io.BytesIO()
        GenerateWasm._GenerateConstant(LinearIR.ConstantValue(LinearIR.IntegerType(), v)).WriteTo(buf)
        bs = list(buf.getvalue())
        r = wasmref.Reader(bs)
        try:
            op = r.cbyte()
            d = r.sleb(32)
            ok = op == 0x41 and d == v and r.eof()
        except wasmref.Malformed as e:
            d, ok = str(e), False
        return None if ok else dict(kind="i32.const", v=v, bytes=bs, decoded=d)
    def index(v, name="local.get"):
        # the same value as the (unsigned) immediate of an instruction: local and function indices
        buf = _io.BytesIO()
        W.Instruction(W.opcodes[name], (v,)).WriteTo(buf)
        bs = list(buf.getvalue())
        r = wasmref.Reader(bs)
        try:
            op = r.cbyte()
            d = r.uleb(32)
            ok = op == W.opcodes[name] and d == v and r.eof()
        except wasmref.Malformed as e:
            d, ok = str(e), False
        return None if ok else dict(kind=name + " immediate", v=v, bytes=bs, decoded=d)

    with shims.no_wasm_shims():
        for k, v in enumerate(vals):
            # the value as an instruction immediate of the other signedness, in both orders, on values of their own (v + 3, v + 5)
            for first, second, w in ((index, signed, v + 3), (signed, index, v + 5), (lambda x: index(x, "call"), signed, v + 7)):
                for f in (first, second):
                    if w > 2 ** 31 - 1:
                        continue                       # not an i32 constant
                    res["paths"] += 1
                    b = f(w)
                    if b:
                        b["order"] = "index immediate first" if first is not signed else "i32.const first"
                        bad.append(b)
            order = (unsigned, signed) if k % 2 == 0 else (signed, unsigned)
            for f in order:
                res["paths"] += 1
                b = f(v)
                if b:
                    b["order"] = "unsigned use first" if order[0] is unsigned else "i32.const first"
                    bad.append(b)
        for v in (-1, -2, -63, -64, -65, -128, -8192, -8193, -1048577, -2 ** 31):
            res["paths"] += 1
            b = signed(v)
            if b:
                bad.append(b)
    for b in bad[:4]:
        res["violations"].append(dict(what=f"an integer written earlier in the same process changes what is written now: {b}", replay=dict(harness="C19", inst=dict(part="history"))))
    return res


def instances(tier):
    out = []
    # the 32-bit range is split into sub-ranges only to spread work over processes; together they cover it
    cuts = [0, 2 ** 7, 2 ** 14, 2 ** 21, 2 ** 28, 2 ** 32]
    for i in range(len(cuts) - 1):
        out.append(dict(part="pack-unsigned", lo=cuts[i], hi=cuts[i + 1], twin=(i == 0)))
    out.append(dict(part="pack-unsigned", lo=0, hi=2 ** 32, twin=True))
    scuts = [-2 ** 31, -2 ** 27, -2 ** 20, -2 ** 13, -2 ** 6, 0, 2 ** 6, 2 ** 13, 2 ** 20, 2 ** 27, 2 ** 31]
    for i in range(len(scuts) - 1):
        out.append(dict(part="i32.const", lo=scuts[i], hi=scuts[i + 1]))
    out.append(dict(part="i32.const", lo=-2 ** 31, hi=2 ** 31))
    out.append(dict(part="name-symbolic"))
    out.append(dict(part="name-concrete"))
    for shape in _SHAPE_VARS:
        out.append(dict(part="framing", shape=shape))
    out.append(dict(part="ceil-lemma"))
    out.append(dict(part="history"))
    return out


def replay(spec):
    """Concrete re-execution against the real writer (no proxies).  Returns a description of
    the observed discrepancy, or None when the violation does not reproduce."""
    from nsl import WebAssembly as W
    import io
    part = spec.get("part") or spec["inst"]["part"]
    inp = spec.get("inputs", {})
    try:
        if part == "history":
            r = _history(spec["inst"])
            return dict(violations=[v["what"] for v in r["violations"]][:2]) if r["violations"] else None
        if part == "pack-unsigned":
            v = inp["v"]
            bs = list(W.PackInteger(v))
            r = wasmref.Reader(bs)
            d = r.uleb(32)
            if d != v or not r.eof():
                return dict(v=v, bytes=bs, decoded=d)
            return None
        if part == "i32.const":
            v = inp["v"]
            buf = io.BytesIO()
            from nsl import LinearIR
            from nsl.passes import GenerateWasm
            GenerateWasm._GenerateConstant(LinearIR.ConstantValue(LinearIR.IntegerType(), v)).WriteTo(buf)
            bs = list(buf.getvalue())
            r = wasmref.Reader(bs)
            op = r.cbyte()
            d = r.sleb(32)
            if op != 0x41 or d != v or not r.eof():
                return dict(v=v, bytes=bs, decoded=d)
            return None
        if part == "name-symbolic":
            L, idx = inp.get("L", 0), inp.get("idx", 0)
            if L > 1 << 20:
                L = L  # a name of that many bytes is still buildable below 64 MiB; larger ones are cut
            if L > 1 << 26:
                return None
            buf = io.BytesIO()
            name = make_string(inp.get("C", L), L)
            W.Export(idx, name).WriteTo(buf)
            r = wasmref.Reader(list(buf.getvalue()))
            nm = r.name(); kind = r.cbyte(); i = r.uleb(32)
            if nm != name or kind != 0 or i != idx or not r.eof():
                return dict(L=L, idx=idx, decoded_index=i)
            return None
        if part == "name-concrete":
            s = spec["name"]
            buf = io.BytesIO()
            W.WriteString(buf, s)
            r = wasmref.Reader(list(buf.getvalue()))
            back = r.name()
            return None if (back == s and r.eof()) else dict(name=s, back=back)
        if part == "framing":
            inst = spec["inst"]
            V = {n: inp.get(n, lo) for n, lo, hi in _SHAPE_VARS[inst["shape"]]}
            if "L" in V:
                if V["L"] > 1 << 24:
                    return None
                V["name"] = "n" * V["L"]
            if inst["shape"] == "code" and V["n"] > 1 << 40:
                return None
            mod = _build_module(inst, V)
            buf = io.BytesIO()
            mod.WriteTo(buf)
            dec = wasmref.decode(list(buf.getvalue()))
            bad = [d for d, c in _check_decoded(inst, dec, V, conc=True) if not c]
            return dict(inputs=V if "name" not in V else {k: v for k, v in V.items() if k != "name"}, failed=bad) if bad else None
    except (wasmref.Malformed, ValueError, OverflowError) as e:
        return dict(inputs=inp, error=f"{type(e).__name__}: {e}")
    return None


def run(tier, seed, only=None):
    chk = core.Check(PID, "model_checking", tier, seed,
                     rule="one instance per (writer entry point, value range / module shape); an instance is non-trivial "
                          "when at least one path reached the decoder and its query over the symbolic integers was discharged (unsat)")
    chk.shims = shims.install_wasm()
    chk.bounds = {"integers": "unsigned: [0, 2^32); signed: [-2^31, 2^31); LEB length 1-5 groups",
                  "names": "symbolic UTF-8 byte length in [0, 2^32) with opaque content; concrete list of 15 names for str.encode",
                  "module shapes": list(_SHAPE_VARS), "outside": "non-function sections the writer cannot emit; 64-bit integers"}
    chk.assumptions = ["z3 Int models Python int exactly", "math.ceil(bits/7) on floats equals the exact ceiling for bits <= 64 (checked exhaustively, part ceil-lemma)",
                       "str.encode('utf-8') is correct (C level, not modelled)", "decoder vlib/wasmref.py follows the WebAssembly 1.0 binary format"]
    insts = [i for i in instances(tier) if only in (None, i["part"])]
    results = core.run_pool("vlib.harness.C19", "run_instance", insts)
    for inst, r in zip(insts, results):
        chk.absorb(r, part=inst["part"])
    chk.exhaustive = False
    return chk.finish()
