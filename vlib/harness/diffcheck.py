"""Differential checker shared by C02, C16, C17: two linked programs (a reference build and a
candidate build of the same source) run on the real VM on the same symbolic inputs inside one
exploration; z3 decides per joint path whether any input makes return value, globals or the
kind of failure differ."""
import signal
import z3
from .. import core, symx, shims, unit
from ..symx import Engine
from ..nslref import ast as A
from ..nslref import joint
from ..nslref.interp import deep


INSTANCE_BUDGET_S = 90.0     # wall-clock budget of one pair's exploration; beyond it the instance is reported as cut (incomplete)


class Failure:
    def __init__(self, exc):
        self.exc = exc
        self.kind = type(exc).__name__

    def __repr__(self):
        return f"Failure({self.kind}: {self.exc})"


def _run(linked, fname, args, gvals, gnames):
    try:
        return joint.vm_run(linked, fname, deep(dict(args)), {n: deep(gvals[n]) for n in gnames}, gnames)
    except symx.Abort:
        raise
    except symx.PathTimeout:
        raise
    except Exception as e:  # noqa: BLE001 -- outcome of the code under analysis
        symx.reraise_watchdog(e)
        return Failure(e), None


def outcome_differs(a, b, gnames):
    """z3 Bool / bool: outcomes (ret, globals) differ"""
    ra, ga = a
    rb, gb = b
    fa, fb = isinstance(ra, Failure), isinstance(rb, Failure)
    if fa or fb:
        if fa and fb:
            return z3.BoolVal(ra.kind != rb.kind)
        return z3.BoolVal(True)
    return z3.Or(joint.differs(ra, rb), *[joint.differs(ga[n], gb[n]) for n in gnames])


def check_pair(prog, fname, linked_ref, linked_cand, *, harness, inst, extra_pre=(), label=("reference", "candidate"), max_decisions=200,
               max_paths=600, path_timeout=6.0, query_timeout_ms=15000, replay_fn=None):
    res = dict(paths=0, cut=0, timeouts=0, queries=0, unsat=0, sat=0, undecided=0, violations=[], known=[], errors=[],
               nontrivial=False, sat_replayed=0, solver_time=0.0)
    f = [x for x in prog.funcs if x.name == fname and x.exported][0]
    shims.install_vm()
    args, zvars, pre = joint.sym_inputs(f.params, structs=prog.structs)
    gvals, gz, gpre = joint.sym_inputs(prog.globals, prefix="g_", structs=prog.structs)
    zvars += gz
    extra = list(extra_pre(args, gvals) if callable(extra_pre) else extra_pre)
    pre = z3.And(*(pre + gpre + extra)) if (pre or gpre or extra) else z3.BoolVal(True)
    gnames = [n for _, n in prog.globals]

    def fn():
        a = _run(linked_ref, fname, args, gvals, gnames)
        b = _run(linked_cand, fname, args, gvals, gnames)
        return a, b

    eng = Engine(max_decisions=max_decisions, max_paths=max_paths, path_timeout=path_timeout)
    import time as _time
    budget_s, slack_s, tier_query_ms = core.budgets()
    query_timeout_ms = min(query_timeout_ms, tier_query_ms)
    eng.solver.set("timeout", min(eng._solver_timeout_ms, tier_query_ms))          # feasibility queries of the exploration
    eng._solver_timeout_ms = min(eng._solver_timeout_ms, tier_query_ms)
    eng.deadline = _time.time() + min(INSTANCE_BUDGET_S, budget_s)
    paths = eng.explore(fn, pre)
    res["paths"] = len(paths)
    if not paths:
        res["errors"].append("no feasible path (vacuous instance)")
    grid = joint.grid(zvars)
    for p in paths:
        if _time.time() > eng.deadline + slack_s:
            res["undecided"] += 1          # the query phase ran out of its budget too: not decided
            continue
        if p.kind == "cut":
            res["cut"] += 1
            continue
        if p.kind == "timeout":
            res["timeouts"] += 1
            res["undecided"] += 1
            res.setdefault("notes", []).append("path watchdog fired (slow symbolic path); not decided")
            continue
        if p.kind == "exc":
            res["errors"].append(f"harness exception {type(p.value).__name__}: {p.value}")
            continue
        a, b = p.value
        if isinstance(a[0], Failure) and isinstance(b[0], Failure) and a[0].kind == b[0].kind and a[0].kind not in ("ZeroDivisionError", "IndexError"):
            # both builds fail alike with something that is not a defined run-time failure: agreement only if the failure is real -- a failure
            # the proxies cause (a shim gap) would hide any difference between the builds
            rr, mm = eng.query(pre, p.pc, z3.BoolVal(True), timeout_ms=query_timeout_ms)
            if rr == "sat":
                vals0 = unit.model_values(mm)
                try:
                    with shims.no_vm_shims():
                        joint.vm_run(linked_ref, fname, joint.concrete_inputs(f.params, vals0, structs=prog.structs),
                                     joint.concrete_inputs(prog.globals, vals0, prefix="g_", structs=prog.structs), gnames)
                    res["errors"].append(f"both builds fail with {a[0].kind} ({str(a[0].exc)[:80]}) on symbolic inputs but the concrete run {vals0} succeeds (proxy / shim gap): nothing claimed")
                    continue
                except Exception:  # noqa: BLE001 -- the failure is real
                    pass
        bad = outcome_differs(a, b, gnames)
        if isinstance(bad, bool):
            bad = z3.BoolVal(bad)
        what = f"{label[1]} build behaves differently from the {label[0]} build"
        if isinstance(b[0], Failure) and not isinstance(a[0], Failure):
            what = f"{label[1]} build fails with {b[0].kind}: {str(b[0].exc)[:80]} where the {label[0]} build succeeds"
        elif isinstance(a[0], Failure) and not isinstance(b[0], Failure):
            what = f"{label[0]} build fails with {a[0].kind} where the {label[1]} build succeeds"
        r, model = eng.query(pre, p.pc + grid, bad, timeout_ms=query_timeout_ms) if grid else ("unsat", None)
        if r == "unsat":
            r, model = eng.query(pre, p.pc, bad, timeout_ms=query_timeout_ms)
        res["queries"] += 1
        if r == "unsat":
            res["unsat"] += 1
            res["nontrivial"] = True
        elif r == "unknown":
            res["undecided"] += 1
        else:
            res["sat"] += 1
            vals = unit.model_values(model)
            spec = dict(harness=harness, inst=inst, kind="values", inputs=vals)
            obs = replay_fn(vals) if replay_fn else None
            if obs:
                res["sat_replayed"] += 1
                res["violations"].append(dict(what=f"{what}; {obs}", replay=spec, inputs=vals, observed=obs))
            elif any(k == "float" for _, _, k in zvars):
                res["undecided"] += 1
                res.setdefault("notes", []).append(f"real-only discrepancy not reproduced with doubles: {vals}")
            else:
                res["errors"].append(f"integer counterexample {vals} did not reproduce")
    if eng.truncated:
        res["cut"] += 1
    res["solver_time"] = eng.stats()["solver_time_s"]
    return res


def concrete_pair(prog, fname, linked_ref, linked_cand, vals, label=("reference", "candidate")):
    """Concrete re-execution of both builds.  -> description of the discrepancy or None."""
    f = [x for x in prog.funcs if x.name == fname and x.exported][0]
    gnames = [n for _, n in prog.globals]

    def one(linked):
        def _alarm(signum, frame):
            raise TimeoutError("VM did not terminate in 5 s")
        old = signal.signal(signal.SIGALRM, _alarm)
        signal.setitimer(signal.ITIMER_REAL, 5.0)
        try:
            return joint.vm_run(linked, fname, joint.concrete_inputs(f.params, vals, structs=prog.structs), joint.concrete_inputs(prog.globals, vals, prefix="g_", structs=prog.structs), gnames)
        except Exception as e:  # noqa: BLE001
            return Failure(e), None
        finally:
            signal.setitimer(signal.ITIMER_REAL, 0)
            signal.signal(signal.SIGALRM, old)
    a, b = one(linked_ref), one(linked_cand)
    fa, fb = isinstance(a[0], Failure), isinstance(b[0], Failure)
    if fa or fb:
        if fa and fb and a[0].kind == b[0].kind:
            return None
        return {"args": joint.concrete_inputs(f.params, vals, structs=prog.structs), label[0]: repr(a[0]), label[1]: repr(b[0])}
    if not joint.close(a[0], b[0]) or any(not joint.close(a[1][n], b[1][n]) for n in gnames):
        return {"args": joint.concrete_inputs(f.params, vals, structs=prog.structs), "globals_in": joint.concrete_inputs(prog.globals, vals, prefix="g_", structs=prog.structs),
                label[0]: a[0], label[1]: b[0], label[0] + "_globals": a[1], label[1] + "_globals": b[1]}
    return None
