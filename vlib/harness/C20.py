"""C20 -- reported source positions designate the text they talk about.

Four solver-checked links and one trusted link (PLY reports the offset of a token's
first character):
 1 line-table  SourceMapping(text) for 1..5 lines of symbolic length (len shim), symbolic offset
 2 format      Location.__str__ for symbolic begin <= end on that mapping (placeholder tokens)
 3 hull        Location.Merge for 1..4 symbolic spans; UpdateLocationsVisitor one step per node kind
 4 attach      every p_* action that attaches a location, called with a stub production whose
               lexpos are symbolic: span = [lexpos(k), lexpos(k)+len(token k)) for the identifier / literal
 5 layouts     concrete end-to-end gate: the redeclaration diagnostic quotes positions whose
               substring in the source is the identifier
"""
import io
import re
import inspect
import contextlib
import z3
from .. import symx, core, unit
from ..symx import SymNum

PID = "C20"


class FakeLine:
    def __init__(self, n):
        self.n = n


class FakeText:
    """A source text of len(lens) lines whose lengths are symbolic: every way of finding its line breaks that
    str offers (split, splitlines, find, index, count) is answered with terms over the line lengths."""

    def __init__(self, lens):
        self.lens = lens

    def split(self, sep=None, maxsplit=-1):
        assert sep == "\n"
        return [FakeLine(n) for n in self.lens]

    def splitlines(self, keepends=False):
        return [FakeLine(n + (1 if keepends else 0)) for n in self.lens]

    def _breaks(self):
        out, pos = [], 0
        for n in self.lens[:-1]:
            pos = pos + n
            out.append(pos)          # offset of the k-th line break
            pos = pos + 1
        return out

    def find(self, sub, start=0, end=None):
        assert sub == "\n" and end is None
        for b in self._breaks():
            if b >= start:           # forks on symbolic positions
                return b
        return -1

    def index(self, sub, start=0, end=None):
        r = self.find(sub, start, end)
        if isinstance(r, int) and r == -1:
            raise ValueError("substring not found")
        return r

    def count(self, sub, *a):
        assert sub == "\n" and not a
        return len(self.lens) - 1

    @property
    def n(self):                     # len(text) through the len shim
        total = len(self.lens) - 1
        for x in self.lens:
            total = total + x
        return total


def _install_len():
    import nsl.ast as A

    def shim_len(x):
        return x.n if isinstance(x, (FakeLine, FakeText)) else len(x)
    A.len = shim_len


def _starts(L):
    out = [z3.IntVal(0)]
    for l in L[:-1]:
        out.append(out[-1] + l + 1)
    return out


def _line_of(starts, o):
    return z3.Sum([z3.If(st <= o, 1, 0) for st in starts[1:]]) if len(starts) > 1 else z3.IntVal(0)


def _start_of(starts, line):
    e = starts[-1]
    for i in range(len(starts) - 2, -1, -1):
        e = z3.If(line == i, starts[i], e)
    return e


# ------------------------------------------------------------------ 1 line table
def _linetable(inst):
    import nsl.ast as A
    n = inst["lines"]
    L = [z3.Int(f"L{i}") for i in range(n)]
    o = z3.Int("o")
    total = z3.Sum(L) + (n - 1) if n > 1 else L[0]
    pre = z3.And(*[l >= 0 for l in L], o >= 0, o <= total)
    starts = _starts(L)

    def fn():
        sm = A.SourceMapping(FakeText([SymNum(l) for l in L]))
        line = sm.GetLineFromOffset(SymNum(o))
        return line, sm.GetLineStartOffset(line)

    def good(val, wrong=False):
        line, start = val
        want = _line_of(starts, o if not wrong else o - 1)
        return z3.And(symx.term(line) == want, symx.term(start) == _start_of(starts, want))

    return unit.decide(fn, pre, good, inst=inst, harness="C20", replay=replay, setup=_install_len,
                       twin=(lambda v: good(v, True)) if n > 1 else None)


# ------------------------------------------------------------------ 2 formatting
def _format(inst):
    import nsl.ast as A
    n = inst["lines"]
    L = [z3.Int(f"L{i}") for i in range(n)]
    b, e = z3.Int("b"), z3.Int("e")
    total = z3.Sum(L) + (n - 1) if n > 1 else L[0]
    pre = z3.And(*[l >= 0 for l in L], b >= 0, e >= b, e <= total)
    starts = _starts(L)

    def fn():
        toks = {}

        def hook(x):
            k = f"⟦{len(toks)}⟧"
            toks[k] = x.e if not x.isf else None
            return k
        symx.FORMAT_HOOK = hook
        try:
            sm = A.SourceMapping(FakeText([SymNum(l) for l in L]))
            text = str(A.Location((SymNum(b), SymNum(e)), sm))
        finally:
            symx.FORMAT_HOOK = None
        return text, toks

    lb, le = _line_of(starts, b), _line_of(starts, e)
    sb, se = _start_of(starts, lb), _start_of(starts, le)

    def good(val, wrong=False):
        text, toks = val
        N = "(⟦\\d+⟧|-?\\d+)"
        m = re.fullmatch(f"{N}:{N}-{N}(?::{N})?", text)
        if not m:
            return z3.BoolVal(False)
        terms = [(toks[g] if g.startswith("⟦") else z3.IntVal(int(g))) for g in m.groups() if g is not None]
        one = 0 if wrong else 1
        if len(terms) == 3:
            want = [lb + 1, b - sb + 1, e - sb + one]
            return z3.And(lb == le, *[t == w for t, w in zip(terms, want)])
        want = [lb + 1, b - sb + 1, le + 1, e - se + one]
        return z3.And(lb != le, *[t == w for t, w in zip(terms, want)])

    return unit.decide(fn, pre, good, inst=inst, harness="C20", replay=replay, setup=_install_len,
                       twin=lambda v: good(v, True))


# ------------------------------------------------------------------ 3 hull
def _merge(inst):
    import nsl.ast as A
    k = inst["spans"]
    B = [z3.Int(f"b{i}") for i in range(k)]
    E = [z3.Int(f"e{i}") for i in range(k)]
    pre = z3.And(*[z3.And(B[i] >= 0, E[i] >= B[i]) for i in range(k)])

    def fn():
        locs = [A.Location((SymNum(B[i]), SymNum(E[i]))) for i in range(k)]
        m = A.Location.Merge(*locs)
        return m.GetBegin(), m.GetEnd()

    def good(val, wrong=False):
        mb, me = symx.term(val[0]), symx.term(val[1])
        c = [z3.Or(*[mb == x for x in B]), z3.Or(*[me == x for x in E])]
        c += [mb <= x for x in B]
        c += [(me >= x) if not wrong else (me > x) for x in E]
        return z3.And(*c)

    return unit.decide(fn, pre, good, inst=inst, harness="C20", replay=replay, twin=lambda v: good(v, True))


NODE_KINDS = ["binary", "assignment", "call", "array", "member", "if", "ifelse", "for", "while", "do", "compound", "return",
              "expression", "declaration", "function"]


def _node(kind, leaves):
    """real AST node of the kind with the given leaf expressions/statements as children"""
    from nsl import ast, types, op
    a, b, c = leaves
    st = lambda x: ast.ExpressionStatement(x)  # noqa: E731
    if kind == "binary":
        return ast.BinaryExpression(op.Operation.ADD, a, b), [a, b]
    if kind == "assignment":
        return ast.AssignmentExpression(a, b), [a, b]
    if kind == "call":
        return ast.CallExpression(types.UnresolvedType("h"), [a, b, c]), [a, b, c]
    if kind == "array":
        return ast.ArrayExpression(a, b), [a, b]
    if kind == "member":
        return ast.MemberAccessExpression(a, b), [a, b]
    if kind == "if":
        n = ast.IfStatement(a, st(b))
        return n, [a, b]
    if kind == "ifelse":
        return ast.IfStatement(a, st(b), st(c)), [a, b, c]
    if kind == "for":
        return ast.ForStatement(None, a, b, st(c)), [a, b, c]
    if kind == "while":
        return ast.WhileStatement(a, st(b)), [a, b]
    if kind == "do":
        return ast.DoStatement(a, ast.CompoundStatement([st(b)])), [a, b]
    if kind == "compound":
        return ast.CompoundStatement([st(a), st(b), st(c)]), [a, b, c]
    if kind == "return":
        return ast.ReturnStatement(a), [a]
    if kind == "expression":
        return ast.ExpressionStatement(a), [a]
    if kind == "declaration":
        return ast.DeclarationStatement([ast.VariableDeclaration(types.Integer(), "v", a)]), [a]
    if kind == "function":
        return ast.Function("f", [], types.Integer(), ast.CompoundStatement([st(a), ast.ReturnStatement(b)])), [a, b]
    raise ValueError(kind)


def _hull(inst):
    import nsl.ast as A
    from nsl.passes.UpdateLocations import UpdateLocationsVisitor
    kind = inst["kind"]
    known = inst["known"]          # which of the three leaves carry a location
    B = [z3.Int(f"b{i}") for i in range(3)]
    E = [z3.Int(f"e{i}") for i in range(3)]
    pre = z3.And(*[z3.And(B[i] >= 0, E[i] >= B[i]) for i in range(3)])

    def fn():
        leaves = []
        for i in range(3):
            p = A.PrimaryExpression(f"x{i}")
            if known[i]:
                p.SetLocation(A.Location((SymNum(B[i]), SymNum(E[i]))))
            leaves.append(p)
        node, used = _node(kind, leaves)
        v = UpdateLocationsVisitor()
        v.v_Visit(node)
        loc = node.GetLocation()
        idx = [leaves.index(u) for u in used]
        return loc.IsUnknown if not any(known[i] for i in idx) else False, loc.GetBegin(), loc.GetEnd(), idx

    def good(val, wrong=False):
        unk, mb, me, idx = val
        ks = [i for i in idx if known[i]]
        if not ks:
            return z3.BoolVal(bool(unk))
        mb, me = symx.term(mb), symx.term(me)
        c = [z3.Or(*[mb == B[i] for i in ks]), z3.Or(*[me == E[i] for i in ks])]
        c += [mb <= B[i] for i in ks]
        c += [(me >= E[i]) if not wrong else (me > E[i]) for i in ks]
        return z3.And(*c)

    return unit.decide(fn, pre, good, inst=inst, harness="C20", replay=replay,
                       twin=(lambda v: good(v, True)) if known[0] else None)


# ------------------------------------------------------------------ 4 attachment
class StubProd:
    def __init__(self, syms, pos):
        self.s = [None] + syms
        self.pos = [None] + pos

    def __getitem__(self, i):
        return self.s[i]

    def __setitem__(self, i, v):
        self.s[i] = v

    def __len__(self):
        return len(self.s)

    def lexpos(self, i):
        return self.pos[i]


def _actions():
    """name -> (symbols of the production, [(path to the node, index of the token it stands for)])"""
    from nsl import types, ast
    T = types.Integer()
    prim = lambda: ast.PrimaryExpression("zz")  # noqa: E731
    return {
        "p_argument_1": ([None, T, "abc"], [((), 3)]),
        "p_constant_integer_expression_1": (["1234"], [((), 1)]),
        "p_constant_integer_expression_2": (["0123"], [((), 1)]),
        "p_constant_integer_expression_3": (["0x1F"], [((), 1)]),
        "p_constant_float_expression": (["12.5f"], [((), 1)]),
        "p_unary_expression_1": (["abc"], [((), 1)]),
        "p_unary_expression_3": (["++", "abcd"], [(("GetExpression",), 2)]),
        "p_unary_expression_4": (["abcd", "--"], [(("GetExpression",), 1)]),
        "p_array_expression_1": (["abc", "[", prim(), "]"], [(("GetParent",), 1)]),
        "p_member_access_expression_1": (["abc", ".", "xyzw"], [(("GetParent",), 1), (("GetMember",), 3)]),
        "p_member_access_expression_2": ([prim(), ".", "xy"], [(("GetMember",), 3)]),
        "p_var_decl_1": ([T, "abc"], [((), 2)]),
        "p_var_decl_2": ([T, "abc", "=", prim()], [((), 2)]),
    }


def uncovered_actions():
    """p_* actions of the real parser that attach a location but are not in the table above."""
    from nsl import parser
    names = set()
    for n, f in inspect.getmembers(parser.NslParser, inspect.isfunction):
        if n.startswith("p_") and "GetLocation" in inspect.getsource(f):
            names.add(n)
    return sorted(names - set(_actions()))


_PARSER = None


def _parser():
    global _PARSER
    if _PARSER is None:
        from nsl import parser
        with contextlib.redirect_stdout(io.StringIO()), contextlib.redirect_stderr(io.StringIO()):
            _PARSER = parser.NslParser()
            _PARSER.Parse("int x;")      # initialises the parser's private source mapping
    return _PARSER


def _attach(inst):
    name = inst["action"]
    syms, wants = _actions()[name]
    if not hasattr(_parser(), name):
        # the grammar actions were renamed or merged: this unit harness has nothing to call (the layout gates drive the parser through
        # its public entry point and do not depend on action names)
        return dict(paths=0, cut=0, timeouts=0, queries=0, unsat=0, sat=0, undecided=0, violations=[], known=[], errors=[], nontrivial=False,
                    notes=[f"parser action {name} does not exist in this tree; covered by the layout gates only"])
    n = len(syms)
    P = [z3.Int(f"p{i + 1}") for i in range(n)]
    lens = [len(s) if isinstance(s, str) else 1 for s in syms]
    pre = z3.And(P[0] >= 0, *[P[i + 1] >= P[i] + lens[i] for i in range(n - 1)])
    parser = _parser()

    def fn():
        sy, _ = _actions()[name]
        sp = StubProd(list(sy), [SymNum(p) for p in P])
        getattr(parser, name)(sp)
        node = sp[0]
        out = []
        for path, k in wants:
            x = node
            for attr in path:
                x = getattr(x, attr)()
            loc = x.GetLocation()
            out.append((loc.GetBegin(), loc.GetEnd(), k))
        return out

    def good(val, wrong=False):
        c = []
        for bgn, end, k in val:
            c.append(symx.term(bgn) == P[k - 1])
            c.append(symx.term(end) == P[k - 1] + lens[k - 1] + (1 if wrong else 0))
        return z3.And(*c)

    return unit.decide(fn, pre, good, inst=inst, harness="C20", replay=replay, twin=lambda v: good(v, True))


# ------------------------------------------------------------------ 5 layouts (concrete gate)
LAYOUTS = [
    "{T} {N};", "{T}  {N} ;", "\n{T} {N};", "\n\n  {T}\t{N};", "\t{T} {N};", "/**/ {T} {N};".replace("/**/", "   "),
    "{T}\n{N};", "{T}\n\n\t {N}\n;", "    {T}    {N};", "{T} {N}\n;",
]


def _layout_programs():
    """(source, identifier, kind, expects_diagnostic)"""
    progs = []
    names = ["x", "value", "a_1", "thisIsALongIdentifier"]
    for li, lay in enumerate(LAYOUTS):
        for ni, name in enumerate(names):
            if (li + ni) % 2 and li > 3:
                continue
            first = lay.format(T="int", N=name)
            for lj, lay2 in enumerate(LAYOUTS):
                if (li * 7 + lj + ni) % 5:
                    continue
                second = lay2.format(T="float", N=name)
                # the second declaration sits in a nested block: a redeclaration the name validation reports
                src = "export function f(int p) -> int {\n" + first + "\n  p = p + 1; {\n" + second + "\n } return p; }"
                lead = ["", "\n", "\n\n\t", " \n"][(li + lj + ni) % 4]       # the text may start with a line break
                progs.append((lead + src, name, "local/nested-local", True))
    for name in names:
        # suffixed and exponent float literals, hex/octal ints, calls and constructors as the last token of an initialiser
        for lit in ("0.5f", "2.0", "3e2", "0x1F", "017", "42", "q + 1.5f", "q * 0x10"):
            progs.append((f"\nexport function f(int q) -> int {{\n  float {name} = {lit};\n  {{ float {name}\t=\n {lit}; }} return 1; }}", name, "initialised-literal", True))
        progs.append((f"export function f(int   {name}) -> int {{\n\n\t\tint {name}; return 1; }}", name, "param/local", True))
        progs.append((f"int {name};\n\n\nexport function f(int q) -> int {{ int\n{name}; return 1; }}", name, "global/local", True))
        progs.append((f"export function f(int q) -> int {{ for (int {name} = 0; {name} < q; ++{name}) {{\n  int  {name}; }} return 1; }}", name, "for/local", True))
        progs.append((f"export function f(int q) -> int {{\n\t int {name} = q;\n\n  {{ float\t{name}\n = 2.0; }} return 1; }}", name, "initialised", True))
        progs.append((f"export function f(int q,\n   float {name}) -> int {{ int k;\n\tint\n\n {name}2; return {name}2; }}", name, "no-redeclaration", False))
    return progs


TOKEN_PROGRAMS = [
    "export function f(int k, int total) -> int { ++k; k++; --total; total--; k = k + total++; for (int i = 0; i < k; ++i) { total += i--; } return k * total; }",
    "struct S { int i; float3 v; } S g; export function f(float3 a, int[4] arr, int i) -> float { S s; s.v = a; s.v.x = a.zyx.y; arr[i] = arr[arr[0]] + 1; g.i = arr[2]; "
    "float4 q = float4(a, 1.5f); return s.v.x + q.w + g.i + float(i); }",
    "function h(int a, float b) -> float { return a * b; } export function f(int n, float x) -> float { float r = 0.0; int c = 0; while (c < n) { if (c == 2 || x > 1.0 && n != 3) "
    "{ r = r + h(c, x); } else r -= 0x10; c = c + 1; } do { r = r / 2.0; c--; } while (c > 0) return r + 017; }",
    "export function f(float3x3 m, float3 v, int i) -> float3 { float3 r = m * v; m[i][1] = v.y; r.xy = v.zx; float3[2] arr; arr[i % 2] = m[i]; return r + arr[0] * 2.0 - m[2]; }",
]

_TOKEN = re.compile(r"\s*(0[xX][0-9a-fA-F]+|[0-9]+\.[0-9]*(?:[eE][-+]?[0-9]+)?[fF]?|\.[0-9]+[fF]?|[0-9]+(?:[eE][-+]?[0-9]+)?[fF]?|[A-Za-z_][A-Za-z_0-9]*|->|\+\+|--|\+=|-=|\*=|/=|==|!=|<=|>=|&&|\|\||.)")


def _token_layout_programs():
    """whole-language programs re-spelled with every pair of adjacent tokens separated by nothing (where the lexer allows it), a blank,
    a tab, a line break, or a mixture: every leaf of the located tree must still designate its own spelling"""
    import random as _random
    out = []
    for pi, text in enumerate(TOKEN_PROGRAMS):
        toks = [t for t in _TOKEN.findall(text) if t.strip()]
        out.append((text, f"tokens #{pi} as written"))
        for name, sep in (("blank", " "), ("two blanks", "  "), ("tab", "\t"), ("line break", "\n"), ("blank line", "\n\n"), ("line break and indentation", "\n    "),
                          ("CR LF", "\r\n"), ("CR LF and indentation", "\r\n  ")):
            out.append((sep.join(toks), f"tokens #{pi} separated by {name}"))
        rnd = _random.Random(f"c20-layout/{pi}")
        for k in range(4):
            parts = []
            for a, b in zip(toks, toks[1:] + [""]):
                parts.append(a)
                glue = (a[-1:].isalnum() or a[-1:] in "_.") and (b[:1].isalnum() or b[:1] in "_.")
                merge = (a + b)[:2] in ("++", "--", "+=", "-=", "*=", "/=", "==", "!=", "<=", ">=", "&&", "||", "->", "//", "/*") or a in "+-" and (b[:1] in "+-." or b[:1].isdigit())
                choices = [" ", "\t", "\n", "  \n ", " \t "] + ([] if glue or merge else ["", ""])
                parts.append(rnd.choice(choices))
            out.append(("".join(parts), f"tokens #{pi} mixed separators {k}"))
    return out


def _node_positions(src, name):
    """str(node.GetLocation()) of every declaration / argument / identifier node called `name`, after UpdateLocations."""
    from nsl import parser, ast
    from nsl.passes import UpdateLocations
    with contextlib.redirect_stdout(io.StringIO()), contextlib.redirect_stderr(io.StringIO()):
        tree = parser.NslParser().Parse(src)
        UpdateLocations.GetPass().Process(tree, output=io.StringIO())
    out = []

    def walk(n, ctx=None):
        if isinstance(n, (ast.VariableDeclaration, ast.Argument)) and n.GetName() == name:
            out.append(("declaration" if not (isinstance(n, ast.VariableDeclaration) and n.HasInitializerExpression()) else "initialised",
                        str(n.GetLocation())))
        elif isinstance(n, ast.PrimaryExpression) and n.GetName() == name:
            out.append(("identifier", str(n.GetLocation())))
        n.ForEachChild(walk)
    walk(tree)
    return out


def _diagnostic(src):
    from nsl import Compiler
    out = io.StringIO()
    try:
        with contextlib.redirect_stdout(out), contextlib.redirect_stderr(out):
            Compiler.Compiler().Compile(src)
    except SystemExit:
        return None, "syntax"
    except Exception as e:  # noqa: BLE001
        out.write("\n" + str(e))
    # the wording of the message is not part of the property: every position it quotes (L:C-C or L:C-L:C) is what is looked at
    return re.findall(r"(?<![\w:.-])(\d+:\d+-(?:\d+:)?\d+)(?![\w:-])", out.getvalue()), out.getvalue()


def _range_to_text(src, rng):
    """'L:C-C' or 'L:C-L:C' (1-based, end exclusive) -> substring of src"""
    lines = src.split("\n")
    starts = [0]
    for l in lines[:-1]:
        starts.append(starts[-1] + len(l) + 1)
    m = re.fullmatch(r"(\d+):(\d+)-(\d+)(?::(\d+))?", rng)
    if not m:
        return None
    l1, c1 = int(m.group(1)), int(m.group(2))
    if m.group(4):
        l2, c2 = int(m.group(3)), int(m.group(4))
    else:
        l2, c2 = l1, int(m.group(3))
    if not (1 <= l1 <= len(lines) and 1 <= l2 <= len(lines)):
        return None
    return src[starts[l1 - 1] + c1 - 1: starts[l2 - 1] + c2 - 1]


def _designates(src, rng, name):
    """the range must designate exactly the identifier; for a declaration with an initialiser the range of
    the composite (identifier ... initialiser) must start at the identifier"""
    lines = src.split("\n")
    text = _range_to_text(src, rng)
    if text is None or not text.startswith(name):
        return False, text
    if text == name:
        return True, text
    m = re.fullmatch(r"(\d+):(\d+)-.*", rng)
    start = sum(len(l) + 1 for l in lines[: int(m.group(1)) - 1]) + int(m.group(2)) - 1
    rest = src[start + len(name):].lstrip()
    return rest.startswith("=") and not rest.startswith("=="), text


def _pipeline_tree(src, compiler=None):
    """the AST as the compiler sees it when diagnostics are produced: parsed by the compiler's own parser and run through its own
    AST passes, in its order, up to and including update-locations (earlier passes may already have looked at positions)"""
    from nsl import Compiler
    c = compiler or Compiler.Compiler()
    with contextlib.redirect_stdout(io.StringIO()), contextlib.redirect_stderr(io.StringIO()):
        try:
            tree = c.parser.Parse(src)
        except SystemExit:
            return None
        for p in c.astPasses:
            p.Process(tree, output=io.StringIO())
            if p.Name == "update-locations":
                break
    return tree


def _tree_problems(src, compiler=None):
    """whole-tree gate: every leaf that carries a position designates exactly its own spelling, every parent's range covers the
    ranges of all its children, and the text a position renders to is the textbook rendering of its offsets"""
    from nsl import ast
    tree = _pipeline_tree(src, compiler)
    if tree is None:
        return []
    probs = []
    lines = src.split("\n")
    starts = [0]
    for l in lines[:-1]:
        starts.append(starts[-1] + len(l) + 1)

    def render(b, e):
        """textbook rendering of [b, e): 1-based line:column of b, exclusive end"""
        import bisect
        lb, le = bisect.bisect_right(starts, b) - 1, bisect.bisect_right(starts, e) - 1
        if lb == le:
            return f"{lb + 1}:{b - starts[lb] + 1}-{e - starts[lb] + 1}"
        return f"{lb + 1}:{b - starts[lb] + 1}-{le + 1}:{e - starts[le] + 1}"

    def span(n):
        loc = n.GetLocation() if hasattr(n, "GetLocation") else None
        if loc is None or loc.IsUnknown:
            return None
        return loc.GetBegin(), loc.GetEnd()

    def walk(n, ctx=None):
        sp = span(n)
        kids = []
        n.ForEachChild(lambda c, ctx=None: kids.append(c))
        if sp is not None:
            text = src[sp[0]:sp[1]]
            shown = str(n.GetLocation())
            if shown != render(sp[0], sp[1]):
                probs.append(f"{type(n).__name__} at offsets [{sp[0]},{sp[1]}) is reported as {shown!r}, which should read {render(sp[0], sp[1])!r}")
            if isinstance(n, ast.PrimaryExpression) and text != n.GetName():
                probs.append(f"identifier {n.GetName()!r} reported at [{sp[0]},{sp[1]}) = {text!r}")
            if isinstance(n, ast.LiteralExpression):
                spelled = re.fullmatch(r"[-+]?(0[xX][0-9a-fA-F]+|[0-9.]+([eE][-+]?[0-9]+)?[fFlL]?)", text)
                ok = bool(spelled) and (sp[1] == len(src) or not (src[sp[1]].isalnum() or src[sp[1]] in "._"))
                if not ok:
                    probs.append(f"literal {n.GetValue()!r} reported at [{sp[0]},{sp[1]}) = {text!r} (followed by {src[sp[1]:sp[1] + 1]!r})")
            for c in kids:
                cs = span(c)
                if cs is not None and not (sp[0] <= cs[0] and cs[1] <= sp[1]):
                    probs.append(f"{type(n).__name__} [{sp[0]},{sp[1]}) does not cover its part {type(c).__name__} [{cs[0]},{cs[1]})")
        for c in kids:
            walk(c)
    walk(tree)
    return probs


def _check_layout(src, name, expect_diag=True):
    tp = _tree_problems(src)
    if tp:
        return dict(source=src, name=name, tree=tp[:3])
    # (a) positions of the parsed nodes
    for kind, rng in _node_positions(src, name):
        ok, text = _designates(src, rng, name)
        if kind == "identifier" and text != name:
            ok = False
        if not ok:
            return dict(source=src, name=name, node=kind, reported=rng, designated=text)
    # (b) positions quoted by the redeclaration diagnostic
    if not expect_diag:
        return None
    ranges, text = _diagnostic(src)
    if text == "syntax":
        return dict(source=src, problem="the program does not parse")
    if not ranges:
        return None             # the diagnostic quotes no position in the documented form: nothing to compare (the tree gates above still apply)
    shown = [(r,) + _designates(src, r, name) for r in ranges]
    if any(not ok for _, ok, _ in shown):
        return dict(source=src, name=name, reported=ranges, designated=[t for _, _, t in shown])
    return None


def _layouts(inst):
    res = dict(paths=0, queries=0, unsat=0, sat=0, violations=[], errors=[], nontrivial=True)
    bad = []
    for src, name, kind, diag in _layout_programs():
        res["paths"] += 1
        b = _check_layout(src, name, diag)
        if b:
            bad.append((kind, b))
    # the same texts with Windows line ends (every third one): a position still designates the identifier in the text that was handed in
    for k, (src, name, kind, diag) in enumerate(_layout_programs()):
        if k % 3:
            continue
        res["paths"] += 1
        b = _check_layout(src.replace("\n", "\r\n"), name, diag)
        if b:
            bad.append((kind + ", CR LF line ends", b))
    # every pair of adjacent tokens of whole-language programs separated in several ways
    accepted = 0
    for src, label in _token_layout_programs():
        res["paths"] += 1
        try:
            if _pipeline_tree(src) is None:
                continue
            accepted += 1
            tp = _tree_problems(src)
        except Exception as e:  # noqa: BLE001 -- the front end failing on a re-spelled program is not this property's business
            continue
        if tp:
            bad.append(("token-separators: " + label.split(" ", 2)[2], dict(source=src, name="", tree=tp[:3], note=label)))
    if not accepted:
        res["errors"].append("none of the token-separator programs was accepted by the parser (vacuous gate)")
    # one compiler object for a series of texts (a tool that keeps its Compiler): positions must come from the text at hand.
    # The functions are not exported and carry distinct names and no globals, which is what the compiler allows across calls.
    from nsl import Compiler
    shared = Compiler.Compiler()
    k = 0
    for src, name, kind, diag in _layout_programs():
        if "export function f(" not in src or src.lstrip().startswith("int ") or kind in ("global/local",):
            continue
        k += 1
        if k % 3:
            continue
        src2 = src.replace("export function f(", f"function fn{k}(")
        res["paths"] += 1
        try:
            tp = _tree_problems(src2, shared)
        except Exception as e:  # noqa: BLE001
            tp = []
        if tp:
            bad.append(("shared-compiler", dict(source=src2, name=name, tree=tp[:3], note="same Compiler object used for earlier texts")))
    seen = set()
    for kind, b in bad:
        if kind in seen:
            continue
        seen.add(kind)
        res["violations"].append(dict(what=f"diagnostic positions do not designate the identifier ({kind}; {len(bad)} layouts): {b}",
                                      replay=dict(harness="C20", inst=dict(part="layout"), source=b["source"], name=b.get("name", ""), diag=(kind != "no-redeclaration"))))
    return res


# ------------------------------------------------------------------ replay
def replay(spec):
    import nsl.ast as A
    inst = spec["inst"]
    inp = spec.get("inputs", {})
    part = inst.get("part")
    if part == "layout":
        return _check_layout(spec["source"], spec["name"] or re.search(r"int\s+(\w+)", spec["source"]).group(1), spec.get("diag", True))
    if part in ("linetable", "format"):
        n = inst["lines"]
        L = [inp.get(f"L{i}", 0) for i in range(n)]
        if sum(L) > 200000:
            return None
        text = "\n".join("x" * l for l in L)
        sm = A.SourceMapping(text)
        starts = [0]
        for l in L[:-1]:
            starts.append(starts[-1] + l + 1)
        line_of = lambda o: sum(1 for s in starts[1:] if s <= o)  # noqa: E731
        if part == "linetable":
            o = inp.get("o", 0)
            got = sm.GetLineFromOffset(o)
            want = line_of(o)
            if got != want or sm.GetLineStartOffset(got) != starts[want]:
                return dict(lines=L, offset=o, line=got, expected_line=want)
            return None
        b, e = inp.get("b", 0), inp.get("e", 0)
        got = str(A.Location((b, e), sm))
        lb, le = line_of(b), line_of(e)
        want = f"{lb + 1}:{b - starts[lb] + 1}-{e - starts[lb] + 1}" if lb == le else f"{lb + 1}:{b - starts[lb] + 1}-{le + 1}:{e - starts[le] + 1}"
        return None if got == want else dict(lines=L, span=[b, e], printed=got, expected=want)
    if part == "merge":
        k = inst["spans"]
        spans = [(inp.get(f"b{i}", 0), inp.get(f"e{i}", 0)) for i in range(k)]
        m = A.Location.Merge(*[A.Location(s) for s in spans])
        want = (min(s[0] for s in spans), max(s[1] for s in spans))
        got = (m.GetBegin(), m.GetEnd())
        return None if got == want else dict(spans=spans, merged=got, expected=want)
    if part == "hull":
        from nsl.passes.UpdateLocations import UpdateLocationsVisitor
        leaves = []
        for i in range(3):
            p = A.PrimaryExpression(f"x{i}")
            if inst["known"][i]:
                p.SetLocation(A.Location((inp.get(f"b{i}", 0), inp.get(f"e{i}", 0))))
            leaves.append(p)
        node, used = _node(inst["kind"], leaves)
        UpdateLocationsVisitor().v_Visit(node)
        ks = [u.GetLocation() for u in used if not u.GetLocation().IsUnknown]
        loc = node.GetLocation()
        if not ks:
            return None if loc.IsUnknown else dict(kind=inst["kind"], got=repr(loc))
        want = (min(k.GetBegin() for k in ks), max(k.GetEnd() for k in ks))
        got = (loc.GetBegin(), loc.GetEnd())
        return None if got == want else dict(kind=inst["kind"], children=[repr(k) for k in ks], parent=got, expected=want)
    if part == "attach":
        # through the public parser: a token sequence in which the action fires, positions from real lexing
        name = inst["action"]
        # the distance between the two tokens is the one of the counterexample (blanks between operator and identifier)
        gap = " " * max(0, min(40, inp.get("p2", 0) - inp.get("p1", 0) - (2 if name.endswith("_3") else 4)))
        srcs = {
            "p_unary_expression_3": ("export function f(int abcd) -> int {   ++" + gap + "abcd; return abcd; }", "abcd", "affix"),
            "p_unary_expression_4": ("export function f(int abcd) -> int {   abcd" + gap + "--; return abcd; }", "abcd", "affix"),
        }
        if name not in srcs:
            return _attach_concrete(inst, inp)
        src, ident, _ = srcs[name]
        from nsl import parser, ast
        with contextlib.redirect_stdout(io.StringIO()):
            tree = parser.NslParser().Parse(src)
        found = []

        def walk(n, ctx=None):
            if isinstance(n, ast.AffixExpression):
                found.append(n.GetExpression().GetLocation())
            n.ForEachChild(walk)
        tree.ForEachChild(walk)
        if not found:
            return None
        loc = found[0]
        text = src[loc.GetBegin(): loc.GetEnd()]
        return None if text == ident else dict(source=src, identifier=ident, designated=text)
    return None


def _attach_concrete(inst, inp):
    name = inst["action"]
    syms, wants = _actions()[name]
    n = len(syms)
    lens = [len(s) if isinstance(s, str) else 1 for s in syms]
    pos = []
    for i in range(n):
        pos.append(inp.get(f"p{i + 1}", (pos[-1] + lens[i - 1]) if pos else 0))
    sp = StubProd(list(syms), pos)
    getattr(_parser(), name)(sp)
    node = sp[0]
    for path, k in wants:
        x = node
        for attr in path:
            x = getattr(x, attr)()
        loc = x.GetLocation()
        if (loc.GetBegin(), loc.GetEnd()) != (pos[k - 1], pos[k - 1] + lens[k - 1]):
            return dict(action=name, lexpos=pos, token=syms[k - 1], span=(loc.GetBegin(), loc.GetEnd()),
                        expected=(pos[k - 1], pos[k - 1] + lens[k - 1]))
    return None


PARTS = {"linetable": _linetable, "format": _format, "merge": _merge, "hull": _hull, "attach": _attach, "layouts": _layouts}


def run_instance(inst):
    r = PARTS[inst["part"]](inst)
    r["sample"] = dict(inst)
    r["key"] = repr(sorted((k, str(v)) for k, v in inst.items()))
    r["funcs"] = {
        "linetable": ["nsl.ast.SourceMapping.__init__", "nsl.ast.SourceMapping.GetLineFromOffset", "nsl.ast.SourceMapping.GetLineStartOffset"],
        "format": ["nsl.ast.Location.__str__", "nsl.ast.SourceMapping.GetLineFromOffset", "nsl.ast.SourceMapping.GetLineStartOffset"],
        "merge": ["nsl.ast.Location.Merge"],
        "hull": ["nsl.passes.UpdateLocations.UpdateLocationsVisitor.v_Generic", "nsl.ast.Location.Merge", "nsl.Visitor.Node.ForEachChild"],
        "attach": ["nsl.parser.NslParser." + inst.get("action", ""), "nsl.parser.NslParser.__GetLocation"],
        "layouts": ["nsl.Compiler.Compiler.Compile", "nsl.passes.ValidateVariableNames.ValidateVariableNamesVisitor.Context.Add", "nsl.ast.Location.__str__"],
    }[inst["part"]]
    return r


def run(tier, seed, only=None):
    chk = core.Check(PID, "model_checking", tier, seed,
                     rule="one instance per (link, size): line tables of 1..5 lines, formatting on 1..4 lines, merges of 1..4 spans, one hull step per "
                          "(node kind, which children carry a position), one per parser action that attaches a position; plus the concrete layout family. "
                          "Non-trivial = a query over symbolic lengths/offsets/spans was discharged")
    chk.bounds = {"lines": "1-5 lines, each of symbolic length >= 0 (unbounded), offset anywhere in the text",
                  "spans": "1-4 spans, unbounded", "node kinds": NODE_KINDS, "parser actions": sorted(_actions()),
                  "layouts": f"{len(_layout_programs())} concrete programs",
                  "outside": "PLY reporting the offset of a token's first character (trusted); texts of more than 5 lines; "
                             "the end column is printed as an exclusive 1-based bound (convention of the code, the statement does not fix it)"}
    chk.assumptions = ["nsl.ast.len shim returns the symbolic length of a fake line", "placeholder tokens stand for the formatted numbers"]
    unc = uncovered_actions()
    if unc:
        chk.errors.append(f"parser actions attach locations but are not covered by the harness table: {unc}")
    insts = []
    for n in range(1, 6):
        insts.append(dict(part="linetable", lines=n))
    for n in range(1, (4 if tier == "quick" else 5) + 1):
        insts.append(dict(part="format", lines=n))
    for k in range(1, 5):
        insts.append(dict(part="merge", spans=k))
    patterns = [(1, 1, 1), (1, 0, 1), (0, 1, 1), (1, 1, 0), (0, 0, 1), (1, 0, 0), (0, 0, 0)]
    for kind in NODE_KINDS:
        for kn in (patterns if tier == "thorough" else patterns[:4] + patterns[-1:]):
            insts.append(dict(part="hull", kind=kind, known=list(kn)))
    for a in sorted(_actions()):
        insts.append(dict(part="attach", action=a))
    insts.append(dict(part="layouts"))
    insts = [i for i in insts if only in (None, i["part"])]
    results = core.run_pool("vlib.harness.C20", "run_instance", insts, chunksize=2)
    for inst, r in zip(insts, results):
        chk.absorb(r, part=inst["part"])
    return chk.finish()
