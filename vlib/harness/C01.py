"""C01 -- compiled programs compute what the source says (scalar core, VM).

Translation validation per program: each member of family F1 (core set + seeded random
programs) is compiled by the real front end and lowering, linked, and executed on the real
VM with symbolic arguments and globals; the reference interpreter O1 runs first on the same
symbolic inputs.  z3 decides per joint path that no input makes return value or globals differ.
"""
from .. import core
from ..gen import core1, f1
from . import famcheck

PID = "C01"


def family(tier, seed):
    items = core1.all_core()
    items += f1.generate(seed, 150 if tier == "quick" else 2500, depth=3 if tier == "quick" else 4,
                         nmax=3 if tier == "quick" else 4)
    return items


def run_instance(inst):
    r = famcheck.run_item(inst, harness="C01", optimize=bool(inst.get("optimize")))
    if inst.get("optimize"):
        r["key"] += "@optimised"
    return r


def replay(spec):
    return famcheck.replay(spec)


def run(tier, seed, only=None):
    chk = core.Check(PID, "translation_validation", tier, seed,
                     rule="one program per instance (core set: systematic operator / compound / ++-- / loop / storage programs; plus VERIF_SEED-generated "
                          "random F1 programs); arguments and globals symbolic. Distinct = distinct source text; non-trivial = compiled, >= 1 joint path reached the "
                          "comparison and its query over the inputs was discharged")
    items = family(tier, seed)
    if only:
        items = [i for i in items if only in i.name or only in i.tags]
    famcheck.describe(chk, items, tier)
    chk.bounds.update({"family": "F1 core set (%d programs) + %d random programs of expression depth <= %d" % (len(core1.all_core()), len(items) - len(core1.all_core()), 3 if tier == "quick" else 4),
                       "builds": "unoptimised for every member; the core set also optimised", "outside": "float->int narrowing, % with a negative operand, uint arithmetic, side effects inside && / || operands, rounding (floats are reals)"})
    famcheck.o1_selftest(chk)
    # what the VM returns is prescribed whatever the optimisation setting: the systematic core set also runs as an optimised build
    core_n = len(core1.all_core())
    packed = [famcheck.pack(i) for i in items] + [famcheck.pack(i, optimize=True) for i in items[:core_n] if only is None or True]
    results = core.run_pool("vlib.harness.C01", "run_instance", packed)
    famcheck.dedupe(results)
    chk.absorb_all(results)
    return chk.finish()
