"""Per-program driver of C06 (agreement with the VM) and C07 (validity of the emitted binary)."""
import io
import re
import contextlib
import z3
from .. import core, symx, shims, unit, wasmref
from ..symx import Engine
from ..gen import skeleton
from ..nslref import joint
from ..nslref.interp import deep
from . import famcheck, wasmfam

I32_MIN, I32_MAX = -2 ** 31, 2 ** 31 - 1


def _entry(inst):
    return inst.get("entry", "f")


def run_program(inst, mode):
    """mode: "validity" (C07) | "agreement" (C06)"""
    pid = "C07" if mode == "validity" else "C06"
    res = dict(paths=0, queries=0, unsat=0, sat=0, undecided=0, cut=0, violations=[], errors=[], nontrivial=False, known=[], solver_time=0.0)
    src0 = inst["src"]
    nconst = wasmfam.count_constants(src0)
    src = wasmfam.instantiate(src0, nconst)
    res["key"] = src0 + "@" + inst.get("entry", "f")
    res["funcs"] = FUNCS
    counters = dict(programs=1, refused=0, emitted=0, paths_valid=0, paths_refused=0, feasibility_queries=0, value_queries=0)
    res["sample"] = dict(name=inst.get("name"), source=src[:300])
    try:
        result = wasmfam.compile_ir(src)
        linked = joint.link(result)
    except joint.Rejected as e:
        if "outside" not in inst.get("tags", []):
            res["errors"].append(f"family member is rejected by the front end: {e}")
        else:
            counters["refused"] = 1
        res["counters"] = counters
        return res
    # concrete gate through the public API, without any shim: what Compile(src, {'wasm': True}) really emits for the placeholder constants
    with shims.no_wasm_shims():
        cst, cdata = wasmfam.public_compile_wasm(src)
    concrete_emits = cst == "bytes"
    if concrete_emits:
        try:
            cm = wasmref.decode(list(cdata))
            wasmref.validate(cm)
        except (wasmref.Malformed, wasmref.Invalid) as e:
            spec = dict(harness=pid, inst=inst, kind="invalid", inputs={f"K{k}": wasmfam.PLACEHOLDER0 + k for k in range(nconst)})
            if replay(spec):
                res["violations"].append(dict(what=f"the emitted module is not a valid WebAssembly 1.0 binary: {type(e).__name__}: {e}", replay=spec))
                res["counters"] = counters
                return res
            res["errors"].append(f"reference validator rejects a module that wasmtime accepts: {e}")
            return res
    prog = skeleton(src)
    fs = [x for x in prog.funcs if x.name == _entry(inst) and x.exported]
    if not fs:
        res["errors"].append("no exported entry point")
        return res
    f = fs[0]
    if concrete_emits and mode == "agreement" and all(t in ("int", "uint", "float") for t, _ in f.params) and not prog.globals:
        # concrete gate: the entry point of the really emitted bytes on a few argument lists against the VM
        for vec in ((3, 5, 2, 7), (-4, 2, 9, 1), (6, 6, 1, 3)):
            cargs = {n: ((abs(v) if t == "uint" else v) if t != "float" else v + 0.5) for (t, n), v in zip(f.params, vec)}
            try:
                r_vm, _ = joint.vm_run(linked, _entry(inst), dict(cargs), {}, [])
                idx0 = wasmref.export_index(cm, _entry(inst))
                wasmref.WRAPPED = False
                out0 = wasmref.call(cm, idx0, [cargs[n] for _, n in f.params])
                if wasmref.WRAPPED and "wide-uint" not in inst.get("tags", []):
                    continue            # an intermediate left the 32-bit range: outside the domain on which values are compared
            except (ZeroDivisionError, wasmref.Trap, wasmref.Unmodelled, KeyError):
                continue
            except Exception as e:  # noqa: BLE001
                res["errors"].append(f"concrete gate failed: {type(e).__name__}: {e}")
                break
            r_w = out0[0] if out0 else None
            same = (r_vm is None and r_w is None) or (r_vm is not None and r_w is not None and joint.close(float(r_vm), float(r_w), 1e-6))
            if not same:
                spec = dict(harness=pid, inst=inst, kind="values", inputs=dict({f"K{k}": wasmfam.PLACEHOLDER0 + k for k in range(nconst)}, **cargs))
                obs = replay(spec)
                if obs:
                    res["violations"].append(dict(what=f"the emitted code computes a different value than the VM; {obs}", replay=spec))
                    res["counters"] = counters
                    return res
    shims.install_vm()
    shims.install_wasm()
    zvars, pre = [], []
    wide = mode == "validity" or "wide-constant" in inst.get("tags", [])
    clo, chi = (I32_MIN, I32_MAX) if wide else (-100, 100)
    if mode == "validity":
        # any integer constant the source can spell, also beyond 32 bits: whatever is emitted for it must be a valid immediate
        clo, chi = -2 ** 34, 2 ** 34
    try:
        args, zv, p = joint.sym_inputs(f.params, structs=prog.structs)
        gvals, gz, gp = joint.sym_inputs(prog.globals, prefix="g_", structs=prog.structs)
    except ValueError as e:
        res.setdefault("notes", []).append(f"no symbolic inputs: {e}")
        args, zv, p, gvals, gz, gp = {}, [], [], {}, [], []
    zvars += zv + gz
    pre += p + gp
    wide_uint = mode == "agreement" and "wide-uint" in inst.get("tags", [])
    if wide_uint:
        # uint parameters over [0, 2^32): the VM sees the unsigned value, the wasm function its two's complement reading
        for t, n in f.params:
            z = z3.Int(n + "_u")
            zvars.append((n, z, "int"))
            pre.append(z3.And(z >= 0, z < 2 ** 32))
            args[n] = symx.SymNum(z)
    elif mode == "agreement":
        lim = 100 if not wide else 1000
        for v in list(args.values()) + list(gvals.values()):
            for leaf in famcheck.leaves(v):
                if hasattr(leaf, "e"):
                    pre.append(z3.And(leaf.e >= -lim, leaf.e <= lim))
    pre += famcheck.make_pre(dict(bounds=inst.get("bounds", {})))(args, gvals)
    try:
        wasmfam.symbolise_constants(result.IRModule, nconst, zvars, pre, clo, chi)
    except core.HarnessError as e:
        res["errors"].append(str(e))
        return res
    preF = z3.And(*pre) if pre else z3.BoolVal(True)
    gnames = [n for _, n in prog.globals]
    ptypes = [t for t, _ in f.params]

    def fn():
        with wasmfam.Emission() as em:
            try:
                wm = wasmfam.generate_wasm(result.IRModule)
            except (symx.Abort, symx.PathTimeout):
                raise
            except Exception as e:  # noqa: BLE001 -- the backend refuses (reports an error)
                symx.reraise_watchdog(e)
                return ("refused", f"{type(e).__name__}: {str(e)[:100]}")
        try:
            items = wasmfam.write_module(wm)
        except (symx.Abort, symx.PathTimeout):
            raise
        except Exception as e:  # noqa: BLE001 -- failing while writing is a refusal too (an error is reported, nothing is emitted)
            symx.reraise_watchdog(e)
            return ("refused", f"WriteTo: {type(e).__name__}: {str(e)[:100]}")
        dropped = em.dropped()
        try:
            m = wasmref.decode(items)
            wasmref.validate(m)
        except (wasmref.Malformed, wasmref.Invalid) as e:
            return ("invalid", f"{type(e).__name__}: {e}", dropped)
        if mode == "validity":
            return ("valid", dropped)
        # agreement: the exported function on O2's evaluator vs the VM on the same IR
        try:
            idx = wasmref.export_index(m, _entry(inst))
        except KeyError:
            return ("invalid", "the entry point is not exported by the emitted module", dropped)
        try:
            r_vm, _ = joint.vm_run(linked, _entry(inst), deep(dict(args)), {n: deep(gvals[n]) for n in gnames}, gnames)
        except (symx.Abort, symx.PathTimeout):
            raise
        except ZeroDivisionError:
            raise symx.Abort("infeasible")          # the VM's defined failure: outside the comparison
        except Exception as e:  # noqa: BLE001
            symx.reraise_watchdog(e)
            return ("vm-failed", f"{type(e).__name__}: {e}", dropped)
        if isinstance(r_vm, symx.SymNum) and not r_vm.isf:
            symx.current().assume(z3.And(r_vm.e >= I32_MIN, r_vm.e <= I32_MAX))
        wasmref.ASSUME_NO_I32_OVERFLOW = not wide_uint
        try:
            wargs = [args[n] for _, n in f.params]
            if wide_uint:
                wargs = [symx.SymNum(z3.If(a.e >= 2 ** 31, a.e - 2 ** 32, a.e)) for a in wargs]
            out = wasmref.call(m, idx, wargs)
        except wasmref.Trap as e:
            return ("trap", str(e), dropped, r_vm)
        except ZeroDivisionError:
            raise symx.Abort("infeasible")
        finally:
            wasmref.ASSUME_NO_I32_OVERFLOW = False
        if wide_uint and out:
            return ("ran", dropped, wasmref.u32(out[0]), wasmref.u32(r_vm))      # both as unsigned 32-bit values
        return ("ran", dropped, out[0] if out else None, r_vm)

    eng = Engine(max_decisions=300, max_paths=800, path_timeout=8.0)
    import time as _time
    eng.deadline = _time.time() + 120.0
    paths = eng.explore(fn, preF)
    if eng.truncated:
        res["cut"] += 1
    res["paths"] = len(paths)
    if not paths:
        if "random" in inst.get("tags", []):
            res.setdefault("notes", []).append("random member has no input inside the domain (e.g. a constant zero divisor); skipped")
        else:
            res["errors"].append("no feasible path (vacuous instance)")
    reported = set()
    for p in paths:
        if p.kind == "cut":
            res["cut"] += 1
            continue
        if p.kind == "timeout":
            res["undecided"] += 1
            continue
        if p.kind == "exc":
            res["errors"].append(f"harness exception {type(p.value).__name__}: {p.value}")
            continue
        out = p.value
        kind = out[0]
        if kind == "refused":
            counters["paths_refused"] += 1
            res["nontrivial"] = True
            continue
        dropped = out[2] if kind in ("invalid", "vm-failed", "trap") else out[1]
        bad, what = None, None
        if dropped and "dropped" not in reported:
            reported.add("dropped")
            bad, what = z3.BoolVal(True), f"IR instructions are dropped from the emitted code without an error: {sorted(set(dropped))[:4]}"
            vkind = "dropped"
        elif kind == "invalid":
            bad, what, vkind = z3.BoolVal(True), f"the emitted module is not a valid WebAssembly 1.0 binary: {out[1]}", "invalid"
        elif kind == "vm-failed":
            bad, what, vkind = z3.BoolVal(True), f"the VM fails ({out[1]}) on a program the wasm backend translated", "values"
        elif kind == "trap":
            bad, what, vkind = z3.BoolVal(True), f"the emitted code traps ({out[1]}) where the VM returns a value", "values"
        elif kind == "ran":
            bad, what, vkind = joint.differs(out[2], out[3]), "the emitted code computes a different value than the VM", "values"
            counters["value_queries"] += 1
        else:
            counters["paths_valid"] += 1
            res["nontrivial"] = True
            continue
        r, model = eng.query(preF, p.pc, bad)
        res["queries"] += 1
        if r == "unsat":
            res["unsat"] += 1
            res["nontrivial"] = True
            counters["paths_valid"] += 1
            continue
        if r == "unknown":
            res["undecided"] += 1
            continue
        res["sat"] += 1
        vals = unit.model_values(model)
        spec = dict(harness=pid, inst=inst, kind=vkind, inputs=vals)
        obs = replay(spec)
        if obs:
            key = (vkind, what[:60])
            if key not in reported:
                reported.add(key)
                res["violations"].append(dict(what=f"{what}; {obs}", replay=spec))
        elif vkind == "values" and any(k == "float" for _, _, k in zvars):
            res["undecided"] += 1
            res.setdefault("notes", []).append(f"real-only discrepancy not reproduced in single precision: {vals}")
        else:
            res["errors"].append(f"counterexample did not reproduce ({what}); inputs {vals}; program {src[:120]}")
    incomplete = eng.truncated or res["undecided"] or any(p.kind in ("timeout", "cut") for p in paths)
    if concrete_emits and counters["paths_refused"] and not counters["paths_valid"] and not res["violations"] and incomplete:
        # the paths on which a module is emitted were not decided (time limits): the refusals seen may be genuine ones for other constant values
        res.setdefault("notes", []).append("only refusing paths were decided; the emitting paths are undecided / cut")
    elif concrete_emits and counters["paths_refused"] and not counters["paths_valid"] and not res["violations"]:
        # the unshimmed compiler emits a module for this program but every symbolic path ended in an exception: the exception is an
        # artefact of the shims / proxies, not a refusal -- nothing can be claimed for this program
        res["errors"].append("the compiler emits a module concretely but the symbolic run only saw exceptions (shim gap): " + str([p.value[1] for p in paths if p.kind == "ok" and p.value[0] == "refused"][:1]))
    st = eng.stats()
    res["solver_time"] = st["solver_time_s"]
    counters["feasibility_queries"] = st["feasibility_queries"]
    counters["emitted"] = int(counters["paths_valid"] > 0)
    counters["refused"] = int(counters["paths_refused"] > 0 and counters["paths_valid"] == 0)
    res["queries"] += st["feasibility_queries"]
    res["counters"] = counters
    res["sample"]["paths"] = len(paths)
    return res


FUNCS = ["nsl.passes.GenerateWasm.GenerateWasmVisitor.v_Function", "nsl.passes.GenerateWasm.GenerateWasmVisitor.v_BinaryInstruction",
         "nsl.passes.GenerateWasm.GenerateWasmVisitor.v_VariableAccessInstruction", "nsl.passes.GenerateWasm.GenerateWasmVisitor.v_ReturnInstruction",
         "nsl.passes.GenerateWasm._ConvertFunctionType", "nsl.passes.GenerateWasm._GenerateConstant", "nsl.WebAssembly.Module.WriteTo", "nsl.WebAssembly.TypeSection.WriteTo",
         "nsl.WebAssembly.FunctionSection.WriteTo", "nsl.WebAssembly.TableSection.WriteTo", "nsl.WebAssembly.ExportSection.WriteTo", "nsl.WebAssembly.CodeSection.WriteTo",
         "nsl.WebAssembly.Code.Encode", "nsl.WebAssembly.Code.AddLocal", "nsl.WebAssembly.Instruction.WriteTo", "nsl.WebAssembly.PackInteger", "nsl.WebAssembly.PackSignedInteger",
         "nsl.VM.ExecutionContext.__Execute"]


def concrete_source(inst, vals):
    src = inst["src"]
    for k in range(wasmfam.count_constants(src)):
        src = src.replace(f"K{k}", str(int(vals.get(f"K{k}", 0))))
    return src


# ------------------------------------------------------------------ one Compiler object for a series of programs (concrete gate)
HISTORY_GOOD = [
    "export function h{k}a(int a, int b) -> int {{ return a * b + 3; }}",
    "export function h{k}b(int a, int b) -> int {{ return a - b; }}\nexport function h{k}c(int a, int b) -> int {{ return b - a; }}",
    "export function h{k}d(float x, float y) -> float {{ return x - y * y; }}",
    "export function h{k}e(int a) -> void {{ a = a + 1; return; }}\nexport function h{k}f(int a, int b) -> int {{ return a / b; }}",
    "export function h{k}g() -> int {{ return 41; }}",
]
HISTORY_REFUSED = [
    "export function r{k}a(int a) -> int {{ return a + 1; }}\nexport function r{k}b(int a, float b) -> float {{ return a * b; }}",     # a cast in the second function
    "export function r{k}c(float2 v) -> float {{ return v.x; }}",                                                                  # a parameter that is not a value type
    "export function r{k}d(int a) -> int {{ int x = a; return x; }}",                                                                # a local variable
    "export function r{k}e(int a, int b) -> int {{ return a % b; }}",                                                                # an operator without an instruction
    "export function r{k}f(int a) -> int {{ return a + 4294967296; }}",                                                              # a constant that does not fit
]


def run_history(inst, mode):
    """Programs handed to ONE Compiler object one after the other, accepted ones and ones the backend refuses interleaved as `order` says:
    what is emitted for an accepted program must be a valid module (and compute what the VM computes) whatever was compiled before."""
    from nsl import Compiler
    pid = "C07" if mode == "validity" else "C06"
    res = dict(paths=0, queries=0, unsat=0, sat=0, undecided=0, cut=0, violations=[], errors=[], nontrivial=False, known=[], solver_time=0.0,
               key=repr(sorted(inst.items())), sample=dict(inst), funcs=FUNCS)
    c = Compiler.Compiler()
    emitted = refused = 0
    with shims.no_wasm_shims():
        for k, step in enumerate(inst["order"]):
            kind, idx = step[0], int(step[1:])
            src = (HISTORY_GOOD if kind == "g" else HISTORY_REFUSED)[idx].format(k=k)
            res["paths"] += 1
            out = io.StringIO()
            try:
                with contextlib.redirect_stdout(out), contextlib.redirect_stderr(out):
                    r = c.Compile(src, {"wasm": True})
                buf = io.BytesIO()
                r.WasmModule.WriteTo(buf)
                data = buf.getvalue()
            except Exception as e:  # noqa: BLE001 -- an error is reported: nothing is emitted
                refused += 1
                if kind == "g":
                    st, _ = wasmfam.public_compile_wasm(src)
                    if st == "bytes":
                        res["violations"].append(dict(what=f"step {k} of the history {inst['order']}: a program a fresh compiler translates is refused ({type(e).__name__}: {str(e)[:80]}) by a compiler that compiled other programs before",
                                                      replay=dict(harness=pid, inst=inst, kind="history")))
                        break
                continue
            emitted += 1
            try:
                cm = wasmref.decode(list(data))
                wasmref.validate(cm)
            except (wasmref.Malformed, wasmref.Invalid) as e:
                res["violations"].append(dict(what=f"step {k} of the history {inst['order']}: the emitted module is not a valid WebAssembly 1.0 binary ({type(e).__name__}: {e}); the same program is "
                                                   f"translated correctly by a fresh compiler: {wasmfam.public_compile_wasm(src)[0] == 'bytes'}; {dict(source=src, module=data.hex())}",
                                              replay=dict(harness=pid, inst=inst, kind="history")))
                break
            if mode == "agreement":
                prog = skeleton(src)
                linked = joint.link(r)
                for f in prog.funcs:
                    if not f.exported or any(t not in ("int", "float") for t, _ in f.params):
                        continue
                    for vec in ((3, 5), (-4, 2), (7, -3)):
                        cargs = {n: (v if t == "int" else v + 0.5) for (t, n), v in zip(f.params, vec)}
                        try:
                            r_vm, _ = joint.vm_run(linked, f.name, dict(cargs), {}, [])
                            wasmref.WRAPPED = False
                            o = wasmref.call(cm, wasmref.export_index(cm, f.name), [cargs[n] for _, n in f.params])
                        except (ZeroDivisionError, wasmref.Trap, KeyError):
                            continue
                        r_w = o[0] if o else None
                        if wasmref.WRAPPED:
                            continue
                        if (r_vm is None) != (r_w is None) or (r_vm is not None and not joint.close(float(r_vm), float(r_w), 1e-6)):
                            res["violations"].append(dict(what=f"step {k} of the history {inst['order']}: {f.name}{tuple(cargs.values())} is {r_vm} on the VM and {r_w} in the emitted module",
                                                          replay=dict(harness=pid, inst=inst, kind="history")))
                            break
    res["nontrivial"] = emitted > 0
    res["counters"] = dict(history_modules_emitted=emitted, history_programs_refused=refused)
    return res


def replay(spec):
    if spec.get("kind") == "history":
        r = run_history(spec["inst"], "validity" if spec.get("harness") == "C07" else "agreement")
        return dict(violations=[v["what"][:300] for v in r["violations"]][:2]) if r["violations"] else None
    """through the public API: Compile(src, {'wasm': True}), WriteTo, then a conforming engine (wasmtime)"""
    inst = spec["inst"]
    vals = spec.get("inputs", {})
    src = concrete_source(inst, vals)
    kind = spec.get("kind")
    with shims.no_wasm_shims():
        if kind == "dropped":
            try:
                result = wasmfam.compile_ir(src)
            except joint.Rejected:
                return None
            with wasmfam.Emission() as em:
                try:
                    wasmfam.generate_wasm(result.IRModule)
                except Exception:  # noqa: BLE001
                    return None
            d = em.dropped()
            return dict(source=src, dropped=sorted(set(d))) if d else None
        st, data = wasmfam.public_compile_wasm(src)
        if st == "refused":
            return None
        msg = wasmfam.wasmtime_check(data)
        if kind == "invalid":
            return dict(source=src, module=data.hex(), wasmtime=msg) if msg else None
        if msg:
            return dict(source=src, module=data.hex(), wasmtime=msg)
        prog = skeleton(src)
        f = [x for x in prog.funcs if x.name == _entry(inst) and x.exported][0]
        cargs = joint.concrete_inputs(f.params, vals)
        if "wide-uint" in inst.get("tags", []):
            cargs = {n: int(vals.get(n + "_u", vals.get(n, 0))) for _, n in f.params}
        try:
            r_vm, _ = joint.vm_run(joint.link(joint.compile_source(src)), _entry(inst), dict(cargs), {}, [])
        except ZeroDivisionError:
            return None
        except Exception as e:  # noqa: BLE001
            return dict(source=src, args=cargs, vm_exception=f"{type(e).__name__}: {e}")
        try:
            wa = [cargs[n] for _, n in f.params]
            if "wide-uint" in inst.get("tags", []):
                wa = [a - 2 ** 32 if a >= 2 ** 31 else a for a in wa]
            if "wide-uint" not in inst.get("tags", []):
                # values are compared on the domain where no 32-bit intermediate wraps: inputs outside it are not counterexamples
                try:
                    cm = wasmref.decode(list(data))
                    wasmref.WRAPPED = False
                    wasmref.call(cm, wasmref.export_index(cm, _entry(inst)), list(wa))
                    if wasmref.WRAPPED:
                        return None
                except Exception:  # noqa: BLE001 -- traps etc. are judged below on the real engine
                    pass
            r_w = wasmfam.wasmtime_call(data, _entry(inst), wa)
        except Exception as e:  # noqa: BLE001
            return dict(source=src, args=cargs, vm=r_vm, wasm_trap=str(e).splitlines()[0][:120])
        if r_vm is None and r_w is None:
            return None
        if isinstance(r_vm, float) or isinstance(r_w, float):
            import struct
            single = struct.unpack("<f", struct.pack("<f", float(r_vm)))[0] if r_vm is not None else None
            ok = r_w is not None and single is not None and (abs(r_w - single) <= 1e-4 * max(1.0, abs(single)))
        elif "wide-uint" in inst.get("tags", []):
            ok = (r_vm % 2 ** 32) == (r_w % 2 ** 32)
        else:
            ok = r_vm == r_w
        return None if ok else dict(source=src, args=cargs, vm=r_vm, wasm=r_w)
