"""C06 -- the WebAssembly backend agrees with the VM or refuses.

Same pipeline as C07 (real GenerateWasm and Module.WriteTo on IR with symbolic integer
constants, bytes read back by the reference decoder / validator O2); in addition the exported
function is evaluated by O2's evaluator on symbolic arguments and compared with the real VM
running the same IR.  z3 decides per joint path that no argument / constant values make the
results differ.  Concrete gate per path: every IR instruction the backend visited produced at
least one wasm instruction or the backend reported an error ("never silently dropped").
"""
from .. import core
from . import wasmfam, wasmcheck

PID = "C06"


HISTORIES = [["g0", "r0", "g1"], ["r1", "g1", "g2"], ["g3", "r2", "r3", "g0"], ["r0", "r1", "g4", "g1"], ["g1", "g2", "g3", "g4", "g0"], ["r4", "g2"], ["g0", "r4", "g3", "r1", "g1"],
             ["r2", "g4", "r0", "g2", "r3", "g3"]]


def run_instance(inst):
    if "order" in inst:
        return wasmcheck.run_history(inst, "agreement")
    return wasmcheck.run_program(inst, "agreement")


def replay(spec):
    return wasmcheck.replay(spec)


def run(tier, seed, only=None):
    chk = core.Check(PID, "translation_validation", tier, seed,
                     rule="one program per instance; arguments and integer constants symbolic. Distinct = distinct source text; non-trivial = the backend refused with an error, or >= 1 "
                          "joint path's value query was discharged")
    insts = wasmfam.family_s(tier, seed) + wasmfam.family_outside(tier, seed) + [i for i in wasmfam.family_shapes(tier, seed) if "multi" in i["tags"] or "mixed-locals" in i["tags"]]
    if only:
        insts = [i for i in insts if only in i["name"] or only in i["tags"]]
    else:
        insts += [dict(order=h, name="history " + " ".join(h), tags=["history"]) for h in HISTORIES]
    chk.assumptions = ["i32 values compared exactly under the assumption that the VM's result lies in the 32-bit range; arguments and constants in [-100, 100] (programs with one "
                       "operation: constants over the whole 32-bit range, arguments in [-1000, 1000])", "f32 as reals (single-precision rounding outside); replay through wasmtime with tolerance 1e-4",
                       "paths on which the VM fails with its defined division-by-zero error are outside the comparison", "O2's evaluator cross-checked with wasmtime on every replay"]
    chk.shims = ["nsl.WebAssembly.bytes", "nsl.WebAssembly.io.BytesIO", "nsl.WebAssembly.len", "nsl.VM.float", "nsl.VM.int", "ConstantValue payload replaced by a symbolic integer after lowering",
                 "observation wrappers around GenerateWasmVisitor.v_Visit and Code.AddInstruction"]
    chk.bounds = {"family": "S (as C07), programs outside S (refusal expected), multi-function and mixed-type-temporary shapes", "outside": "traps other than division by zero; f32 rounding; globals"}
    results = core.run_pool("vlib.harness.C06", "run_instance", insts)
    probs = wasmfam.selftest()          # after the pool: wasmtime starts threads, which must not exist when the workers are forked
    if probs:
        chk.errors += ["reference validator disagrees with wasmtime: " + p for p in probs]
    from . import famcheck
    famcheck.dedupe(results, limit=3)
    chk.absorb_all(results)
    chk.funcs.update(wasmcheck.FUNCS)
    return chk.finish()
