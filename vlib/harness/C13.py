"""C13 -- static checks on element selection: constant bounds, index type, swizzle mask.

symx part: the real ComputeTypes / ValidateArrayAccessType / ValidateArrayOutOfBoundsAccess
passes run on an AST built through the public constructors whose array extents, vector
sizes, matrix sizes and literal indices are symbolic; z3 decides accept <=> every index
lies inside the dimension it selects.  CrossHair part: swizzle masks as symbolic str.
"""
import io
import os
import sys
import contextlib
import itertools
import z3
from .. import symx, core, unit
from ..symx import SymNum

PID = "C13"


def _passes():
    from nsl.passes import ComputeTypes, ValidateArrayAccessType, ValidateArrayOutOfBoundsAccess
    return [ComputeTypes.GetPass(), ValidateArrayAccessType.GetPass(), ValidateArrayOutOfBoundsAccess.GetPass()]


def _build(inst, S, K):
    """AST of `export function f() -> int { <decl> a; return a[K0]...; }` (or a store)."""
    from nsl import ast, types
    kind = inst["kind"]
    if kind == "array":
        t = types.ArrayType(types.Integer(), [S[i] for i in range(inst["rank"])])
    elif kind == "vector":
        t = types.VectorType({"float": types.Float(), "int": types.Integer()}[inst["comp"]], S[0])
    else:
        t = types.MatrixType(types.Float(), S[0], S[0])
    decl = ast.VariableDeclaration(t, "a")
    e = ast.PrimaryExpression("a")
    for i in range(inst["depth"]):
        e = ast.ArrayExpression(e, ast.LiteralExpression(K[i], types.Integer()))
    ctx = inst.get("ctx", "plain")
    if inst["pos"] == "read" and ctx != "plain":
        from nsl import op
        sel = ast.VariableDeclaration(types.ArrayType(types.Integer(), [4]), "sel")
        pre_stmts = [ast.DeclarationStatement([decl]), ast.DeclarationStatement([sel])]
        if ctx == "index-of":
            body = [ast.ReturnStatement(ast.ArrayExpression(ast.PrimaryExpression("sel"), e))]
        elif ctx == "index-of-index":
            body = [ast.ReturnStatement(ast.ArrayExpression(ast.PrimaryExpression("sel"), ast.ArrayExpression(ast.PrimaryExpression("sel"), e)))]
        elif ctx == "index-of-store":
            body = [ast.ExpressionStatement(ast.AssignmentExpression(ast.ArrayExpression(ast.PrimaryExpression("sel"), e), ast.LiteralExpression(1, types.Integer()))),
                    ast.ReturnStatement(ast.LiteralExpression(0, types.Integer()))]
        elif ctx == "operand":
            body = [ast.ReturnStatement(ast.BinaryExpression(op.Operation.ADD, ast.LiteralExpression(1, types.Integer()), e))]
        elif ctx == "condition":
            body = [ast.IfStatement(e, ast.ReturnStatement(ast.LiteralExpression(1, types.Integer()))), ast.ReturnStatement(ast.LiteralExpression(0, types.Integer()))]
        elif ctx == "initialiser":
            body = [ast.DeclarationStatement([ast.VariableDeclaration(types.Integer(), "x", e)]), ast.ReturnStatement(ast.PrimaryExpression("x"))]
        elif ctx == "constructor":
            body = [ast.ReturnStatement(ast.ArrayExpression(ast.ConstructPrimitiveExpression(types.VectorType(types.Integer(), 2), [e, ast.LiteralExpression(1, types.Integer())])
                                                            if False else ast.PrimaryExpression("sel"), ast.LiteralExpression(0, types.Integer()))),
                    ]
            body = [ast.DeclarationStatement([ast.VariableDeclaration(types.VectorType(types.Integer(), 2), "v",
                                                                      ast.ConstructPrimitiveExpression(types.VectorType(types.Integer(), 2), [e, ast.LiteralExpression(1, types.Integer())]))]),
                    ast.ReturnStatement(ast.LiteralExpression(0, types.Integer()))]
        else:
            raise ValueError(ctx)
        stmts = pre_stmts + body
    elif inst["pos"] == "read":
        stmts = [ast.DeclarationStatement([decl]), ast.ReturnStatement(e)]
    else:
        stmts = [ast.DeclarationStatement([decl]),
                 ast.ExpressionStatement(ast.AssignmentExpression(e, ast.LiteralExpression(1, types.Integer()))),
                 ast.ReturnStatement(ast.LiteralExpression(0, types.Integer()))]
    fn = ast.Function("f", [], types.Integer(), ast.CompoundStatement(stmts), isExported=True)
    m = ast.Module()
    m.AddFunction(fn)
    return m


def _extents(inst, S):
    """extent of the dimension selected by the i-th index of the access chain"""
    if inst["kind"] == "array":
        return [S[i] for i in range(inst["depth"])]
    if inst["kind"] == "vector":
        return [S[0]]
    return [S[0], S[0]][: inst["depth"]]


def _source(inst, S, K):
    if inst["kind"] == "array":
        t = "int" + "".join(f"[{S[i]}]" for i in range(inst["rank"]))
    elif inst["kind"] == "vector":
        t = f"{inst['comp']}{S[0]}"
    else:
        t = f"float{S[0]}x{S[0]}"
    acc = "a" + "".join(f"[{K[i]}]" for i in range(inst["depth"]))
    ctx = inst.get("ctx", "plain")
    if inst["pos"] == "read" and ctx != "plain":
        body = {"index-of": f"return sel[{acc}];", "index-of-index": f"return sel[sel[{acc}]];", "index-of-store": f"sel[{acc}] = 1; return 0;",
                "operand": f"return 1 + {acc};", "condition": f"if ({acc}) return 1; return 0;", "initialiser": f"int x = {acc}; return x;",
                "constructor": f"int2 v = int2({acc}, 1); return 0;"}[ctx]
        return f"export function f() -> int {{ {t} a; int[4] sel; {body} }}"
    if inst["pos"] == "read":
        # the element type of the selected value does not matter for acceptance; return it through a local
        return f"export function f() -> void {{ {t} a; {acc}; }}"
    if inst["kind"] == "array" and inst["depth"] < inst["rank"]:
        return None
    if inst["kind"] == "matrix" and inst["depth"] == 1:
        return f"export function f() -> void {{ {t} a; {acc} = float{S[0]}(" + ", ".join(["1.0"] * S[0]) + "); }"
    return f"export function f() -> void {{ {t} a; {acc} = 1; }}"


def compile_accepts(src):
    """Public API: does Compiler().Compile accept the program?  (returns (accepted, detail))"""
    from nsl import Compiler
    out = io.StringIO()
    try:
        with contextlib.redirect_stdout(out), contextlib.redirect_stderr(out):
            r = Compiler.Compiler().Compile(src)
        return (r is not None), out.getvalue().strip().splitlines()[-1:] if r is None else []
    except SystemExit:
        return False, ["syntax error"]
    except Exception as e:  # noqa: BLE001
        return False, [f"{type(e).__name__}: {e}"]


def _bounds(inst):
    nS = inst["rank"] if inst["kind"] == "array" else 1
    Sz = [z3.Int(f"S{i}") for i in range(nS)]
    Kz = [z3.Int(f"K{i}") for i in range(inst["depth"])]
    if inst["kind"] == "array":
        pre = z3.And(*[s > 0 for s in Sz])
    elif inst["kind"] == "vector":
        pre = z3.And(Sz[0] >= 2, Sz[0] <= 4)
    else:
        pre = z3.And(Sz[0] >= 3, Sz[0] <= 4)

    def fn():
        S = [SymNum(s) for s in Sz]
        K = [SymNum(k) for k in Kz]
        tree = _build(inst, S, K)
        for p in _passes():
            try:
                ok = p.Process(tree, output=io.StringIO())
            except Exception as e:  # noqa: BLE001 -- a raise from a front-end pass rejects the program
                from nsl import Errors
                if isinstance(e, (Errors.CompileException, AssertionError)):
                    return ("reject", p.Name if hasattr(p, "Name") else "?")
                raise
            if not ok:
                return ("reject", p.Name)
        return ("accept",)

    ext = _extents(inst, Sz)
    in_range = z3.And(*[z3.And(k >= 0, k < e) for k, e in zip(Kz, ext)])

    def good(val):
        return in_range == z3.BoolVal(val[0] == "accept")

    def twin(val):  # wrong oracle (<= instead of <) must be refutable
        wrong = z3.And(*[z3.And(k >= 0, k <= e) for k, e in zip(Kz, ext)])
        return wrong == z3.BoolVal(val[0] == "accept")

    return unit.decide(fn, pre, good, inst=inst, harness="C13", replay=replay, twin=twin)


def replay(spec):
    inst = spec["inst"]
    inp = spec.get("inputs", {})
    if inst.get("part") == "bounds":
        nS = inst["rank"] if inst["kind"] == "array" else 1
        lo = 1 if inst["kind"] == "array" else (2 if inst["kind"] == "vector" else 3)
        S = [inp.get(f"S{i}", lo) for i in range(nS)]
        K = [inp.get(f"K{i}", 0) for i in range(inst["depth"])]
        src = _source(inst, S, K)
        if src is None:
            return None
        ext = _extents(inst, S)
        expect = all(0 <= k < e for k, e in zip(K, ext))
        got, detail = compile_accepts(src)
        if got != expect:
            return dict(source=src, expected="accept" if expect else "reject", observed="accept" if got else "reject", detail=detail)
        return None
    if inst.get("part") == "index-type" and "sequence" in inst:
        from nsl import Compiler
        c = Compiler.Compiler()
        got = None
        for text in inst["sequence"]:
            out = io.StringIO()
            try:
                with contextlib.redirect_stdout(out), contextlib.redirect_stderr(out):
                    got = c.Compile(text) is not None
            except SystemExit:
                got = False
            except Exception:  # noqa: BLE001
                got = False
        if got != inst["expect_last"]:
            return dict(sequence=inst["sequence"], label=inst["label"], expected="accept" if inst["expect_last"] else "reject", observed="accept" if got else "reject")
        return None
    if inst.get("part") == "index-type":
        got, detail = compile_accepts(inst["src"])
        if got != inst["expect"]:
            return dict(source=inst["src"], expected=inst["expect"], observed=got, detail=detail)
        return None
    if inst.get("part") == "swizzle-enum":
        return _swizzle_enum(inst, first_only=True).get("first")
    if inst.get("part") == "swizzle-crosshair":
        return _crosshair_replay(spec)
    return None


# -- index type (concrete gate: no symbolic input) ----------------------------------------------
def _index_type_instances():
    out = []
    decls = {"int": True, "uint": True, "float": False, "float2": False, "int3": False}
    for cont in ("int[4] a", "float4 a", "float3x3 a"):
        for t, ok in decls.items():
            src = f"export function f({t} i) -> void {{ {cont}; a[i]; }}"
            out.append(dict(part="index-type", src=src, expect=ok))
    # literal spellings reach the checks as literals
    for lit, ok in (("0", True), ("3", True), ("4", False), ("-1", False), ("+1", True), ("0x3", True), ("0x4", False),
                    ("03", True), ("04", False), ("1.0", False), ("1.5", False)):
        out.append(dict(part="index-type", src=f"export function f() -> void {{ int[4] a; a[{lit}]; }}", expect=ok))
    # constants beyond 32 and 64 bits, in every spelling: far outside every extent, whatever their low bits are
    for lit in ("4294967296", "4294967298", "0x100000000", "0x100000002", "0x200000001", "040000000001", "040000000000", "18446744073709551616", "0x10000000000000001", "2147483648", "0x80000000", "0xFFFFFFFF"):
        for cont, acc in (("int[4] a", "a[{0}]"), ("int[2][4] a", "a[1][{0}]"), ("int[2][4] a", "a[{0}][1]"), ("float4 a", "a[{0}]"), ("float3x3 a", "a[{0}][0]"), ("float3x3 a", "a[0][{0}]")):
            out.append(dict(part="index-type", src=f"export function f() -> void {{ {cont}; {acc.format(lit)}; }}", expect=False, label=f"constant index {lit}"))
    # suffixed spellings the lexer tokenises as integer constants: out of range stays out of range ("only if" direction of the statement;
    # whether an in-range suffixed constant is accepted is not fixed by it)
    for lit in ("4u", "4U", "7l", "0x4u", "04u", "9ul", "4LL", "100u"):
        for cont, acc in (("int[4] a", "a[{0}]"), ("int[2][4] a", "a[1][{0}]"), ("float4 a", "a[{0}]"), ("float3x3 a", "a[{0}][0]"), ("float3x3 a", "a[0][{0}]")):
            out.append(dict(part="index-type", src=f"export function f() -> void {{ {cont}; {acc.format(lit)}; }}", expect=False))
    # a name that is declared again with another type in a later scope (sibling blocks, loop headers, branches, another function): every
    # access is judged by the declaration visible at that place, whatever the name meant before
    def rebind(first, second, kind):
        return {
            "blocks": f"export function f() -> void {{ {{ {first} }} {{ {second} }} }}",
            "loop bodies": f"export function f(int n) -> void {{ while (n > 0) {{ {first} n = n - 1; }} do {{ {second} n = n + 1; }} while (n < 2) }}",
            "branches": f"export function f(int n) -> void {{ if (n > 0) {{ {first} }} else {{ {second} }} }}",
            "functions": f"function h() -> void {{ {first} }}\nexport function f() -> void {{ {second} }}",
            "after a for loop": f"export function f() -> void {{ for (int k = 0; k < 2; ++k) {{ {first} }} {second} }}",
        }[kind]
    pairs = [("float4 v; v.w;", "float2 v; v.w;", False, "swizzle"), ("float2 v; v.y;", "float4 v; v.w;", True, "swizzle"), ("float4 v; v.rgb;", "float2 v; v.rgb;", False, "swizzle"),
             ("int[5] a; a[4];", "int[2] a; a[4];", False, "bounds"), ("int[2] a; a[1];", "int[5] a; a[4];", True, "bounds"), ("float4 a; a[3];", "float3 a; a[3];", False, "bounds"),
             ("float4x4 a; a[3][3];", "float3x3 a; a[3][0];", False, "bounds"), ("int[4] a; int i; a[i];", "int[4] a; float i; a[i];", False, "index type"),
             ("int[4] a; float i; i = 1.0;", "int[4] a; int i; a[i];", True, "index type"), ("int[2][3] a; a[1][2];", "int[3][2] a; a[1][2];", False, "bounds")]
    for first, second, ok, what in pairs:
        for kind in ("blocks", "loop bodies", "branches", "functions", "after a for loop"):
            out.append(dict(part="index-type", src=rebind(first, second, kind), expect=ok, label=f"{what}: name declared again with another type ({kind})"))
    # ... also when the earlier declaration sits in a loop header
    out.append(dict(part="index-type", src="export function f() -> void { int[4] a; for (int i = 0; i < 2; ++i) { a[i]; } for (float i = 0.0; i < 2.0; i = i + 1.0) { a[i]; } }", expect=False,
                    label="index type: loop variable declared again as float"))
    out.append(dict(part="index-type", src="export function f() -> void { int[4] a; for (float i = 0.0; i < 2.0; i = i + 1.0) { } for (int i = 0; i < 2; ++i) { a[i]; } }", expect=True,
                    label="index type: loop variable declared again as int"))
    out.append(dict(part="index-type", src="export function f() -> void { for (float4 v = float4(0.0, 0.0, 0.0, 0.0); v.x < 1.0; v.x = v.x + 1.0) { v.w; } "
                                           "for (float2 v = float2(0.0, 0.0); v.x < 1.0; v.x = v.x + 1.0) { v.w; } }", expect=False, label="swizzle: loop variable declared again with fewer components"))
    out.append(dict(part="index-type", src="export function f() -> void { for (float2 v = float2(0.0, 0.0); v.x < 1.0; v.x = v.x + 1.0) { v.y; } "
                                           "for (float4 v = float4(0.0, 0.0, 0.0, 0.0); v.x < 1.0; v.x = v.x + 1.0) { v.w; } }", expect=True, label="swizzle: loop variable declared again with more components"))
    out.append(dict(part="index-type", src="export function f() -> void { float4 r; for (int[5] a; r.x < 1.0; r.x = r.x + 1.0) { a[4]; } for (int[2] a; r.x < 2.0; r.x = r.x + 1.0) { a[4]; } }", expect=False,
                    label="bounds: loop variable declared again with a smaller extent", may_reject_both=True))
    # a swizzle anywhere inside an access chain or expression is checked against the vector it is applied to
    S = "struct S { float4[2] rows; float2 uv; }\nfunction h(float a) -> float { return a; }\n"
    ctxs = [("iv", "float4[2] arr; arr[iv.{M}];"), ("iv", "float4[2] arr; arr[iv.{M}].x;"), ("iv", "float4[2] arr; arr[iv.{M}].wzyx.x;"), ("iv", "s.rows[iv.{M}].x;"), ("iv", "s.rows[iv.{M}].zyx.x;"),
            ("iv", "float3x3 m; m[iv.{M}][0];"), ("iv", "float3x3 m; m[0][iv.{M}];"), ("iv", "float4[2] arr; arr[iv.{M}][1];"), ("iv", "float4[2] arr; arr[iv.x][iv.{M}];"),
            ("fv", "float q; q = fv.{M} + 1.0;"), ("fv", "if (fv.{M} > 0.0) {{ }}"), ("fv", "float2 t = float2(fv.{M}, 1.0);"), ("fv", "float q = h(fv.{M});"), ("fv", "fv.{M} = 1.0;"),
            ("fv", "float4[2] arr; arr[0].x = fv.{M};"), ("fv", "while (fv.{M} > 1.0) {{ fv.x = 0.0; }}"), ("fv", "float q = s.uv.x * fv.{M};")]
    for n in (2, 3, 4):
        for var, stmt in ctxs:
            for M in "xyzwrgbaq":
                src = S + f"export function f(int{n} iv, float{n} fv, S s) -> void {{ {stmt.format(M=M)} }}"
                out.append(dict(part="index-type", src=src, expect=swizzle_spec(M, n), label=f"swizzle .{M} on a {n}-vector inside `{stmt}`"))
    for M in "xyzwrgbaq":
        out.append(dict(part="index-type", src=S + f"export function f(S s) -> void {{ s.uv.{M}; s.rows[1].{M}; }}", expect=swizzle_spec(M, 2), label=f"swizzle .{M} on struct members"))
    # a compiler object that is used for several texts: each text is judged on its own (functions not exported, distinct names)
    seqs = [
        ("function s{0}(int   i) -> void {{ int[4] a; a[i]; }}", "function s{0}(float i) -> void {{ int[4] a; a[i]; }}", "index type after an accepted text of the same layout"),
        ("function s{0}(uint   i) -> void {{ float4 a; a[i]; }}", "function s{0}(float2 i) -> void {{ float4 a; a[i]; }}", "vector index type after an accepted text of the same layout"),
        ("function s{0}(int q) -> void {{ int[4] a; a[3]; }}", "function s{0}(int q) -> void {{ int[4] a; a[4]; }}", "bounds after an accepted text of the same layout"),
        ("function s{0}(int q) -> void {{ float4 a; a.xyz; }}", "function s{0}(int q) -> void {{ float4 a; a.xyr; }}", "swizzle mask after an accepted text of the same layout"),
        ("function s{0}(int q) -> void {{ float3 a; a.xyz; }}", "function s{0}(int q) -> void {{ float3 a; a.xyw; }}", "swizzle component after an accepted text of the same layout"),
        ("function s{0}(int q) -> void {{ float3x3 a; a[2][1]; }}", "function s{0}(int q) -> void {{ float3x3 a; a[2][3]; }}", "matrix bounds after an accepted text of the same layout"),
    ]
    for k, (good, bad, label) in enumerate(seqs):
        assert len(good.format(0)) == len(bad.format(1)), (good, bad)
        out.append(dict(part="index-type", sequence=[good.format(2 * k), bad.format(2 * k + 1)], expect_last=False, label=label))
        out.append(dict(part="index-type", sequence=[good.format(2 * k), good.format(2 * k + 1).replace("a[3]", "a[2]")], expect_last=True, label=label + " (second text valid)"))
    return out


def _index_type(inst):
    res = dict(paths=1, queries=0, unsat=0, sat=0, violations=[], errors=[], nontrivial=True)
    obs = replay(dict(inst=inst))
    if obs:
        res["violations"].append(dict(what=f"index type / literal spelling: {obs}", replay=dict(harness="C13", inst=inst)))
    return res


# -- swizzle masks --------------------------------------------------------------------------------
def swizzle_spec(mask, n):
    for letters in ("xyzw", "rgba"):
        if mask and all(c in letters[:n] for c in mask):
            return True
    return False


def _swizzle_enum(inst, first_only=False):
    """Exhaustive end-to-end gate (concrete): every mask of length 1..L over the alphabet, on
    every vector size, must be accepted exactly when the rule says so."""
    res = dict(paths=0, queries=0, unsat=0, sat=0, violations=[], errors=[], nontrivial=True)
    alpha = inst["alphabet"]
    n = inst["n"]
    comp = inst["comp"]
    bad = []
    for L in range(1, inst["maxlen"] + 1):
        for tup in itertools.product(alpha, repeat=L):
            mask = "".join(tup)
            src = f"export function f({comp}{n} v) -> void {{ v.{mask}; }}"
            expect = swizzle_spec(mask, n)
            got, detail = compile_accepts(src)
            res["paths"] += 1
            if got != expect:
                bad.append(dict(source=src, expected=expect, observed=got, detail=detail))
                if first_only:
                    res["first"] = bad[0]
                    return res
    if bad:
        res["violations"].append(dict(what=f"{len(bad)} swizzle masks on {comp}{n} misjudged, e.g. {bad[0]}",
                                      replay=dict(harness="C13", inst=inst)))
    return res


CROSSHAIR_FILE = os.path.join(core.VERIF, "vlib", "crosshair_c13.py")


def _crosshair(inst):
    """Run `crosshair check` on one condition (function) of vlib/crosshair_c13.py."""
    import subprocess
    import re
    res = dict(paths=0, queries=1, unsat=0, sat=0, undecided=0, violations=[], errors=[], nontrivial=False)
    fn = inst["fn"]
    line = None
    for n, l in enumerate(open(CROSSHAIR_FILE), 1):
        if l.startswith(f"def {fn}("):
            line = n + 1
    py = os.path.join(core.VERIF, ".venv", "bin", "python")
    cmd = [py, "-m", "crosshair", "check", "--report_all", "--per_condition_timeout", str(inst["timeout"]),
           "--per_path_timeout", str(max(2, inst["timeout"] // 10)), f"{CROSSHAIR_FILE}:{line}"]
    env = dict(os.environ, PYTHONPATH=core.VERIF + os.pathsep + core.REPO)
    try:
        r = subprocess.run(cmd, capture_output=True, text=True, timeout=inst["timeout"] * 3 + 60, env=env)
        out = r.stdout + r.stderr
    except subprocess.TimeoutExpired:
        out = "TIMEOUT"
    res["detail"] = out.strip()[-400:]
    if "Confirmed over all paths" in out:
        if inst.get("twin"):
            res["errors"].append(f"reachability twin {fn} was confirmed: harness vacuous")
        else:
            res["unsat"] = 1
            res["nontrivial"] = True
    elif re.search(r"error: (false|.*when calling)", out):
        m = re.search(r"when calling (\w+)\((.*?)\)(?: \(which|\s*$)", out, re.M)
        if inst.get("twin"):
            res["unsat"] = 1   # twin refuted as it must be
        else:
            res["sat"] = 1
            args = m.group(2) if m else ""
            spec = dict(harness="C13", inst=inst, call=args)
            obs = _crosshair_replay(spec)
            if obs:
                res["sat_replayed"] = 1
                res["violations"].append(dict(what=f"swizzle mask validation: {fn}({args}) -> {obs}", replay=spec))
            else:
                res["errors"].append(f"crosshair counterexample {fn}({args}) did not reproduce")
    else:
        res["undecided"] = 1
    return res


def _crosshair_replay(spec):
    import importlib.util
    sp = importlib.util.spec_from_file_location("crosshair_c13", CROSSHAIR_FILE)
    mod = importlib.util.module_from_spec(sp)
    sp.loader.exec_module(mod)
    fn = spec["inst"]["fn"]
    try:
        args = eval("(" + spec["call"] + ",)", {})  # literal arguments printed by crosshair
    except Exception:  # noqa: BLE001
        return None
    return mod.replay(fn, args)


PARTS = {"bounds": _bounds, "index-type": _index_type, "swizzle-enum": _swizzle_enum, "swizzle-crosshair": _crosshair}

FUNCS = {
    "bounds": ["nsl.passes.ComputeTypes.ComputeTypeVisitor._ProcessExpression", "nsl.passes.ComputeTypes.ComputeTypeVisitor.v_VariableDeclaration",
               "nsl.passes.ValidateArrayAccessType.ValidateArrayAccessTypeVisitor._ValidateArrayExpression",
               "nsl.passes.ValidateArrayOutOfBoundsAccess.ValidateArrayOutOfBoundsAccessVisitor._ValidateArrayExpression",
               "nsl.types.ArrayType.GetSize", "nsl.types.VectorType.GetSize", "nsl.types.MatrixType.GetSize"],
    "index-type": ["nsl.Compiler.Compiler.Compile", "nsl.lexer.NslLexer", "nsl.passes.ValidateArrayAccessType"],
    "swizzle-enum": ["nsl.Compiler.Compiler.Compile", "nsl.passes.ValidateSwizzle.ValidateSwizzleMaskVisitor.v_MemberAccessExpression"],
    "swizzle-crosshair": ["nsl.passes.ValidateSwizzle.ValidateSwizzleMask", "nsl.passes.ValidateSwizzle.ValidateSwizzleMaskVisitor.v_MemberAccessExpression",
                          "nsl.Utility.ContainsAnyOf"],
}


def run_instance(inst):
    r = PARTS[inst["part"]](inst)
    r["sample"] = dict(inst)
    r["key"] = repr(sorted((k, str(v)) for k, v in inst.items()))
    r["funcs"] = FUNCS[inst["part"]]
    return r


def instances(tier):
    out = []
    for rank in (1, 2, 3):
        for depth in range(1, rank + 1):
            for pos in ("read", "write"):
                if pos == "write" and depth < rank:
                    continue
                out.append(dict(part="bounds", kind="array", rank=rank, depth=depth, pos=pos))
    for comp in ("float", "int"):
        for pos in ("read", "write"):
            out.append(dict(part="bounds", kind="vector", comp=comp, depth=1, pos=pos))
    for depth in (1, 2):
        for pos in ("read", "write"):
            out.append(dict(part="bounds", kind="matrix", depth=depth, pos=pos))
    # the checked access sits inside another expression: as the index of another access, as an operand, condition, initialiser, constructor argument
    for ctx in ("index-of", "index-of-index", "index-of-store", "operand", "condition", "initialiser", "constructor"):
        for rank in (1, 2):
            out.append(dict(part="bounds", kind="array", rank=rank, depth=rank, pos="read", ctx=ctx))
        out.append(dict(part="bounds", kind="vector", comp="int", depth=1, pos="read", ctx=ctx))
    out += _index_type_instances()
    alpha = "xyzwrgba" + "qs0_X"
    for n in (2, 3, 4):
        out.append(dict(part="swizzle-enum", n=n, comp="float", alphabet=alpha if tier == "thorough" else "xyzwrgbaq",
                        maxlen=4 if tier == "thorough" else 3))
    out.append(dict(part="swizzle-enum", n=3, comp="int", alphabet="xyzwrgbaq", maxlen=2))
    t = 60 if tier == "quick" else 300
    out.append(dict(part="swizzle-crosshair", fn="check_mask", timeout=t))
    for n in (2, 3, 4):
        for L in ((1, 2, 3) if tier == "quick" else (1, 2, 3, 4)):
            out.append(dict(part="swizzle-crosshair", fn=f"check_visitor_n{n}_len{L}", timeout=t))
    out.append(dict(part="swizzle-crosshair", fn="twin_mask", timeout=t, twin=True))
    out.append(dict(part="swizzle-crosshair", fn="twin_visitor", timeout=t, twin=True))
    return out


def run(tier, seed, only=None):
    chk = core.Check(PID, "model_checking", tier, seed,
                     rule="one instance per (container kind, rank, access depth, read/write) with symbolic extents and literal "
                          "indices; per index-type / literal spelling; per CrossHair condition; per exhaustive mask family. "
                          "Non-trivial = at least one path whose query over the symbolic variables was discharged")
    chk.bounds = {"arrays": "rank 1-3, every access depth, extents > 0 unbounded, literal indices unbounded",
                  "vectors": "component count 2-4 symbolic", "matrices": "n x n, n in {3,4} symbolic (only spellable shapes)",
                  "swizzle (CrossHair)": "mask = symbolic str of length 1-3 (quick) / 1-4 (thorough), one condition per (vector size 2-4, length)",
                  "swizzle (enumeration gate)": "all masks up to length 3 (quick) / 4 (thorough) over xyzwrgba + foreign letters",
                  "outside": "non-square matrices (cannot be spelled); non-literal constant expressions"}
    chk.assumptions = ["z3 Int models Python int", "CrossHair's model of str", "front-end passes reject by returning False or raising CompileException/AssertionError"]
    insts = [i for i in instances(tier) if only in (None, i["part"])]
    # crosshair conditions run as separate processes with their own time budget: start them first
    insts.sort(key=lambda i: 0 if i["part"] == "swizzle-crosshair" else 1)
    results = core.run_pool("vlib.harness.C13", "run_instance", insts, chunksize=1)
    for inst, r in zip(insts, results):
        chk.absorb(r, part=inst["part"])
    chk.extra["crosshair"] = [dict(fn=i["fn"], verdict=("confirmed" if r.get("unsat") else "counterexample" if r.get("sat") else "inconclusive"),
                                   detail=r.get("detail", "")[-200:])
                              for i, r in zip(insts, results) if i["part"] == "swizzle-crosshair"]
    return chk.finish()
