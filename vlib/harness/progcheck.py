"""Shared driver for the program-family checks (C01, C03, C04, C08, ...): one instance = one
generated program; the reference interpreter O1 and the real VM run on the same symbolic
inputs inside one exploration; z3 decides per joint path whether any input makes them differ.
"""
import z3
from .. import core, symx, shims, unit
from ..symx import Engine
from ..nslref import ast as A
from ..nslref import joint
from ..nslref.interp import RefError, deep


INSTANCE_BUDGET_S = 90.0     # wall-clock budget of one program's exploration; beyond it the instance is reported as cut (incomplete), never as passed


class VMFailure:
    def __init__(self, exc):
        self.exc = exc

    def __repr__(self):
        return f"VMFailure({type(self.exc).__name__}: {self.exc})"


def defined_failure(exc):
    """run-time failures the language defines: division by zero, dynamic index out of range"""
    return isinstance(exc, (ZeroDivisionError, IndexError))


def check_program(prog, fname, *, harness, inst, extra_pre=(), quirks=(), optimize=False, max_decisions=160,
                  max_paths=600, path_timeout=5.0, compiled=None, float_grid=True, query_timeout_ms=15000):
    """-> result dict in the protocol of core.Check.absorb.
    The program must be accepted by the compiler (otherwise that is reported as a violation of
    the calling property: every family member is a well-typed program of the language)."""
    src = prog.src()
    res = dict(paths=0, cut=0, timeouts=0, queries=0, unsat=0, sat=0, undecided=0, violations=[], known=[], errors=[],
               nontrivial=False, sat_replayed=0, solver_time=0.0, source=src)
    f = [x for x in prog.funcs if x.name == fname and x.exported][0]
    try:
        result = compiled or joint.compile_source(src, optimize=optimize)
        linked = joint.link(result)
    except joint.Rejected as e:
        spec = dict(harness=harness, inst=inst, kind="rejected", source=src)
        res["violations"].append(dict(what=f"well-typed program is not compiled: {e}", replay=spec, rejected=str(e),
                                      exc=getattr(e, "exc", None), where=getattr(e, "where", None)))
        return res
    shims.install_vm()
    args, zvars, pre = joint.sym_inputs(f.params, structs=prog.structs)
    gvals, gz, gpre = joint.sym_inputs(prog.globals, prefix="g_", structs=prog.structs)
    zvars += gz
    pre = z3.And(*(pre + gpre + list(extra_pre(args, gvals) if callable(extra_pre) else extra_pre))) if (pre or gpre or extra_pre) else z3.BoolVal(True)
    gnames = [n for _, n in prog.globals]

    def fn():
        r_ref, g_ref = joint.ref_run(prog, fname, args, {n: gvals["" + n] for n in gnames}, quirks=quirks)
        try:
            # the VM writes into host lists in place: every path gets its own copy of the inputs
            r_vm, g_vm = joint.vm_run(linked, fname, deep(dict(args)), {n: deep(gvals[n]) for n in gnames}, gnames)
        except symx.Abort:
            raise
        except Exception as e:  # noqa: BLE001 -- outcome of the code under analysis
            symx.reraise_watchdog(e)
            return r_ref, g_ref, VMFailure(e), None
        return r_ref, g_ref, r_vm, g_vm

    eng = Engine(max_decisions=max_decisions, max_paths=max_paths, path_timeout=path_timeout)
    import time as _time
    budget_s, slack_s, tier_query_ms = core.budgets()
    query_timeout_ms = min(query_timeout_ms, tier_query_ms)
    eng.solver.set("timeout", min(eng._solver_timeout_ms, tier_query_ms))          # feasibility queries of the exploration
    eng._solver_timeout_ms = min(eng._solver_timeout_ms, tier_query_ms)
    eng.deadline = _time.time() + min(INSTANCE_BUDGET_S, budget_s)
    paths = eng.explore(fn, pre)
    res["paths"] = len(paths)
    if not paths:
        res["errors"].append("no feasible path (vacuous instance)")
    grid = joint.grid(zvars) if float_grid else []
    for p in paths:
        if _time.time() > eng.deadline + slack_s:
            res["undecided"] += 1          # the query phase ran out of its budget too: not decided
            continue
        if p.kind == "cut":
            res["cut"] += 1
            continue
        if p.kind == "timeout":
            res["timeouts"] += 1
            # the watchdog fired: non-termination candidate; replayed concretely below through a model of the path
            bad = z3.BoolVal(True)
            what = "execution did not terminate within the path budget"
        elif p.kind == "exc":
            if isinstance(p.value, RefError):
                res["errors"].append(f"reference interpreter: {p.value}")
            else:
                res["errors"].append(f"harness exception {type(p.value).__name__}: {p.value}")
            continue
        else:
            r_ref, g_ref, r_vm, g_vm = p.value
            if isinstance(r_vm, VMFailure):
                bad = z3.BoolVal(True)
                what = f"VM failed with {type(r_vm.exc).__name__}: {r_vm.exc} where the source semantics define a result"
            else:
                bad = z3.Or(joint.differs(r_ref, r_vm), *[joint.differs(g_ref[n], g_vm[n]) for n in gnames])
                what = "VM result / globals differ from the source semantics"
        r, model = "unknown", None
        if grid:
            r, model = eng.query(pre, p.pc + grid, bad, timeout_ms=query_timeout_ms)
            if r == "unsat":      # nothing on the grid: ask again without it
                r, model = eng.query(pre, p.pc, bad, timeout_ms=query_timeout_ms)
        else:
            r, model = eng.query(pre, p.pc, bad, timeout_ms=query_timeout_ms)
        res["queries"] += 1
        if r == "unsat":
            res["unsat"] += 1
            res["nontrivial"] = True
        elif r == "unknown":
            res["undecided"] += 1
            res.setdefault("notes", []).append("solver returned unknown for one path")
        else:
            res["sat"] += 1
            vals = unit.model_values(model)
            spec = dict(harness=harness, inst=inst, kind="values", source=src, fname=fname, inputs=vals, optimize=optimize)
            obs = replay_values(prog, fname, vals, optimize=optimize, quirks=quirks)
            if obs:
                res["sat_replayed"] += 1
                res["violations"].append(dict(what=f"{what}; {obs}", replay=spec, inputs=vals, observed=obs))
            elif p.kind == "timeout":
                res["undecided"] += 1     # the watchdog fired on a slow symbolic path and the concrete run terminates: not a non-termination
                res.setdefault("notes", []).append("path watchdog fired on a slow symbolic path; the concrete run terminates; not decided")
            elif any(k == "float" for _, _, k in zvars):
                res["undecided"] += 1     # real-only discrepancy that does not reproduce with doubles
                res.setdefault("notes", []).append(f"real-only discrepancy not reproduced with doubles: inputs {vals} ({what})")
            else:
                res["errors"].append(f"integer counterexample {vals} did not reproduce for\n{src}")
    if eng.truncated:
        res["cut"] += 1
    st = eng.stats()
    res["solver_time"] = st["solver_time_s"]
    return res


def replay_values(prog, fname, vals, optimize=False, quirks=()):
    """Concrete re-execution through the public API.  -> description of the discrepancy or None."""
    from ..nslref.interp import OutOfDomain
    f = [x for x in prog.funcs if x.name == fname and x.exported][0]
    args = joint.concrete_inputs(f.params, vals, structs=prog.structs)
    gl = joint.concrete_inputs(prog.globals, vals, prefix="g_", structs=prog.structs)
    gnames = [n for _, n in prog.globals]
    try:
        r_ref, g_ref = joint.ref_run(prog, fname, args, gl, quirks=quirks)
    except OutOfDomain:
        return None
    except symx.Abort:
        return None
    try:
        linked = joint.link(joint.compile_source(prog.src(), optimize=optimize))
    except joint.Rejected as e:
        return dict(rejected=str(e))
    import signal

    def _alarm(signum, frame):
        raise TimeoutError("VM did not terminate in 5 s")
    old = signal.signal(signal.SIGALRM, _alarm)
    signal.setitimer(signal.ITIMER_REAL, 5.0)
    try:
        r_vm, g_vm = joint.vm_run(linked, fname, joint.concrete_inputs(f.params, vals, structs=prog.structs), joint.concrete_inputs(prog.globals, vals, prefix="g_", structs=prog.structs), gnames)
    except Exception as e:  # noqa: BLE001
        return dict(args=args, globals=gl, expected=r_ref, vm_exception=f"{type(e).__name__}: {e}")
    finally:
        signal.setitimer(signal.ITIMER_REAL, 0)
        signal.signal(signal.SIGALRM, old)
    if not joint.close(r_ref, r_vm) or any(not joint.close(g_ref[n], g_vm[n]) for n in gnames):
        return dict(args=args, globals=gl, expected=r_ref, vm=r_vm, expected_globals=g_ref if gnames else None, vm_globals=g_vm if gnames else None)
    return None
