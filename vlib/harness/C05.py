"""C05 -- accepted programs do not go wrong.

Family F5 (whole spellable language, type-level corner cases) plus the accepted members of
F1-F4.  A member counts as *accepted* when the real front end (parser and every AST pass of
Compiler.Compile) lets it through; acceptance is read from the stage in which a failure is
raised.  For accepted members: lowering and the IR passes at both optimisation settings and
linking must not fail (concrete), and the real VM runs on symbolic inputs of the declared types:
every path that ends in an exception other than the defined run-time failures (division by
zero, a *dynamic* index outside its array / vector / matrix) is an internal error; its path
condition is handed to z3 for a witness, which is replayed concretely.
"""
import io
import os
import sys
import contextlib
import traceback
import z3
from .. import core, symx, shims, unit
from ..symx import Engine
from ..gen import core1, f1, f2, f3, f4, f4r, f5
from ..nslref import joint
from ..nslref.interp import deep
from . import famcheck

PID = "C05"
BACKEND_FILES = ("LowerToIR.py", "LinearIR.py", "RewriteFunctionArgAccess.py", "OptimizeConstantCasts.py", "OptimizeLoadAfterStore.py", "PrintLinearIR.py", "VM.py")
FRONT_DIAG = ("CompileException", "UnknownSymbolException", "InvalidDeclaration", "UnknownType", "UnknownSymbol", "InvalidChildType")


def stage_compile(src, optimize):
    """-> ("ok", Result) | ("rejected", text) | ("frontend-crash", text) | ("backend", dict(exc, where, text))"""
    from nsl import Compiler
    out = io.StringIO()
    try:
        with contextlib.redirect_stdout(out), contextlib.redirect_stderr(out):
            r = Compiler.Compiler().Compile(src, {"optimize": optimize})
    except SystemExit:
        return "rejected", "syntax error"
    except RecursionError as e:
        return "frontend-crash", "RecursionError"
    except Exception as e:  # noqa: BLE001
        tb = traceback.extract_tb(e.__traceback__)
        frames = [f for f in tb if os.sep + "nsl" + os.sep in f.filename and not f.filename.endswith(("Errors.py", "Visitor.py", "Pass.py"))]
        last = frames[-1] if frames else tb[-1]
        base = os.path.basename(last.filename)
        text = f"{type(e).__name__}: {str(e)[:160]} (raised in {base}:{last.name})"
        in_backend = any(os.path.basename(f.filename) in BACKEND_FILES for f in frames)
        if in_backend:
            return "backend", dict(exc=type(e).__name__, where=last.name, file=base, text=text)
        if type(e).__name__ in FRONT_DIAG or isinstance(e, (KeyError,)) and False:
            return "rejected", text
        # any other exception out of the front end is a crash of the front end, not a diagnostic: not C05's subject
        return ("rejected" if _is_diag(e) else "frontend-crash"), text
    if r is None:
        return "rejected", out.getvalue().strip()[-160:]
    return "ok", r


def _is_diag(e):
    from nsl import Errors
    return isinstance(e, Errors.CompileException) or type(e).__module__.startswith("nsl.")


def vm_failure_kind(e):
    """-> "defined" | "internal" ; a defined failure is division by zero or an IndexError raised by a subscript whose index operand is not a constant"""
    if isinstance(e, ZeroDivisionError):
        return "defined"
    if isinstance(e, IndexError):
        tb = e.__traceback__
        inst = None
        while tb is not None:
            if tb.tb_frame.f_code.co_filename.endswith("VM.py") and "instruction" in tb.tb_frame.f_locals:
                inst = tb.tb_frame.f_locals["instruction"]
            tb = tb.tb_next
        from nsl import LinearIR as IR
        if inst is not None and isinstance(inst, IR._IndexedAccessBase) and not isinstance(inst.Index, IR.ConstantValue):
            return "defined"
    return "internal"


def explore_vm(linked, prog, fname, inst, label):
    res = dict(paths=0, queries=0, unsat=0, sat=0, undecided=0, cut=0, violations=[], errors=[], notes=[], solver_time=0.0, defined=0, completed=0, feasibility=0)
    f = [x for x in prog.funcs if x.name == fname and x.exported]
    if not f:
        res["notes"].append("no exported entry point named f")
        return res
    f = f[0]
    shims.install_vm()
    try:
        args, zvars, pre = joint.sym_inputs(f.params, structs=prog.structs)
        gvals, gz, gpre = joint.sym_inputs(prog.globals, prefix="g_", structs=prog.structs)
    except ValueError as e:
        res["notes"].append(f"no symbolic inputs: {e}")
        return res
    extra = famcheck.make_pre(inst)(args, gvals)
    pre = z3.And(*(pre + gpre + extra)) if (pre or gpre or extra) else z3.BoolVal(True)
    gnames = [n for _, n in prog.globals]

    def fn():
        try:
            joint.vm_run(linked, fname, deep(dict(args)), {n: deep(gvals[n]) for n in gnames}, gnames)
        except (symx.Abort, symx.PathTimeout):
            raise
        except RecursionError:
            raise symx.Abort("cut")
        except Exception as e:  # noqa: BLE001 -- outcome of the code under analysis
            symx.reraise_watchdog(e)
            return e
        return None

    eng = Engine(max_decisions=120, max_paths=150, path_timeout=5.0)
    import time as _time
    eng.deadline = _time.time() + 60.0        # wall-clock budget per build; beyond it the instance is reported as cut
    paths = eng.explore(fn, pre)
    if eng.truncated:
        res["cut"] += 1
    res["paths"] = len(paths)
    for p in paths:
        if p.kind == "cut":
            res["cut"] += 1
            continue
        if p.kind == "timeout":
            res["undecided"] += 1
            continue
        if p.kind == "exc":
            res["errors"].append(f"harness exception {type(p.value).__name__}: {p.value}")
            continue
        e = p.value
        if e is None or vm_failure_kind(e) == "defined":
            # the claim for this path: no internal error for any input on it -- the path ran to completion (or to a defined failure)
            # for every input satisfying pc, by construction of the exploration
            res["completed"] += 1
            if e is not None:
                res["defined"] += 1
            continue
        r, model = eng.query(pre, p.pc, z3.BoolVal(True))
        res["queries"] += 1
        if r != "sat":
            res["undecided"] += 1
            continue
        res["sat"] += 1
        vals = unit.model_values(model)
        tbs = traceback.extract_tb(e.__traceback__)
        where = [t for t in tbs if t.filename.endswith("VM.py")]
        w = where[-1].name if where else "?"
        spec = dict(harness="C05", inst=inst, kind="vm", inputs=vals, optimize=(label == "optimised"))
        obs = replay(spec)
        sig = f"{type(e).__name__} in VM ({label} build)"
        if obs:
            res["violations"].append(dict(what=f"accepted program fails on the VM with an internal error: {type(e).__name__}: {str(e)[:100]} ({label} build); inputs {vals}",
                                          replay=spec, exc=type(e).__name__, where="VM", sig=sig))
        else:
            res["notes"].append(f"VM failure {type(e).__name__}: {str(e)[:80]} on a symbolic path did not reproduce concretely with {vals}")
            res["undecided"] += 1
    res["solver_time"] = eng.stats()["solver_time_s"]
    res["feasibility"] = eng.stats()["feasibility_queries"]
    res["queries"] += res["feasibility"]       # solver calls: branch feasibility during exploration + witness queries
    return res


def run_instance(inst):
    src = inst["source"]
    res = dict(paths=0, queries=0, unsat=0, sat=0, undecided=0, cut=0, violations=[], errors=[], nontrivial=False, known=[], solver_time=0.0)
    res["key"] = src
    res["funcs"] = FUNCS
    counters = dict(candidates=1, rejected=0, frontend_crash=0, accepted=0, backend_failures=0, vm_paths=0, vm_paths_completed_without_internal_error=0, vm_defined_failures=0,
                    branch_feasibility_queries=0)
    st0, r0 = stage_compile(src, False)
    if st0 == "rejected":
        counters["rejected"] = 1
    elif st0 == "frontend-crash":
        counters["frontend_crash"] = 1
        res.setdefault("notes", []).append(f"front end crashed (not a diagnostic, outside C05): {r0}")
    else:
        counters["accepted"] = 1
        prog = _skeleton(inst)
        builds = []
        if st0 == "backend":
            counters["backend_failures"] += 1
            res["violations"].append(dict(what=f"accepted program fails after acceptance (optimize off): {r0['text']}", exc=r0["exc"], where=r0["where"],
                                          sig=f"{r0['exc']} in {r0['where']}", replay=dict(harness="C05", inst=inst, kind="compile", optimize=False)))
        else:
            builds.append(("unoptimised", r0))
        st1, r1 = stage_compile(src, True)
        if st1 == "backend":
            counters["backend_failures"] += 1
            if st0 != "backend" or r1["text"] != r0["text"]:
                res["violations"].append(dict(what=f"accepted program fails after acceptance (optimize on): {r1['text']}", exc=r1["exc"], where=r1["where"],
                                              sig=f"{r1['exc']} in {r1['where']}", replay=dict(harness="C05", inst=inst, kind="compile", optimize=True)))
        elif st1 == "ok":
            builds.append(("optimised", r1))
        for label, r in builds:
            try:
                linked = joint.link(r)
            except Exception as e:  # noqa: BLE001
                res["violations"].append(dict(what=f"accepted program cannot be linked: {type(e).__name__}: {e}", exc=type(e).__name__, where="Linker", sig=f"{type(e).__name__} in Linker",
                                              replay=dict(harness="C05", inst=inst, kind="link", optimize=(label == "optimised"))))
                continue
            v = explore_vm(linked, prog, inst["fname"], inst, label)
            for k in ("paths", "queries", "unsat", "sat", "undecided", "cut", "solver_time"):
                res[k] += v[k]
            res["violations"] += v["violations"]
            res["errors"] += v["errors"]
            res.setdefault("notes", []).extend(v["notes"])
            counters["vm_paths"] += v["paths"]
            counters["vm_defined_failures"] += v["defined"]
            counters["vm_paths_completed_without_internal_error"] += v["completed"]
            counters["branch_feasibility_queries"] += v["feasibility"]
            if v["completed"]:
                res["nontrivial"] = True
    attribute(res, inst)
    res["counters"] = counters
    res["sample"] = dict(name=inst.get("name"), source=src[:300], stage=st0, paths=res["paths"])
    return res


def attribute(res, inst):
    """known findings: (exception class, raising function, shape of the family member)"""
    findings = [f for f in core.load_findings(PID) if f.get("kind") == "crash-site"]
    rest = []
    import re
    for v in res["violations"]:
        hit = None
        for f in findings:
            sy = f.get("symptom", {})
            if sy.get("exc") == v.get("exc") and sy.get("where") == v.get("where") and re.search(f.get("trigger", {}).get("name_regex", "$^"), inst.get("name", "")):
                hit = f
        if hit:
            res["known"].append(dict(id=hit["id"], what=hit["what"]))
        else:
            rest.append(v)
    res["violations"] = rest


def _skeleton(inst):
    from ..gen import skeleton
    from ..nslref.parse import parse
    try:
        return parse(inst["source"])
    except Exception:  # noqa: BLE001
        return skeleton(inst["source"])


FUNCS = ["nsl.Compiler.Compiler.Compile", "nsl.passes.LowerToIR.LowerToIRVisitor", "nsl.LinearIR.BinaryInstruction.FromOperation", "nsl.passes.RewriteFunctionArgAccess",
         "nsl.passes.OptimizeConstantCasts", "nsl.passes.OptimizeLoadAfterStore", "nsl.LinearIR.Linker.Link", "nsl.VM.VirtualMachine.Invoke", "nsl.VM.ExecutionContext.__Execute",
         "nsl.VM.ExecutionContext.__CreateInstance", "nsl.VM.ExecutionContext.__Cast"]


def replay(spec):
    inst = spec["inst"]
    src = inst["source"]
    kind = spec.get("kind")
    if kind == "compile":
        st, r = stage_compile(src, spec.get("optimize", False))
        return dict(stage=st, detail=r) if st == "backend" else None
    st, r = stage_compile(src, spec.get("optimize", False))
    if st != "ok":
        return None
    try:
        linked = joint.link(r)
    except Exception as e:  # noqa: BLE001
        return dict(link_failure=f"{type(e).__name__}: {e}") if kind == "link" else None
    if kind == "link":
        return None
    prog = _skeleton(inst)
    f = [x for x in prog.funcs if x.name == inst["fname"] and x.exported][0]
    vals = spec.get("inputs", {})
    gnames = [n for _, n in prog.globals]
    import signal

    def _alarm(signum, frame):
        raise TimeoutError("VM did not terminate in 5 s")
    old = signal.signal(signal.SIGALRM, _alarm)
    signal.setitimer(signal.ITIMER_REAL, 5.0)
    try:
        joint.vm_run(linked, inst["fname"], joint.concrete_inputs(f.params, vals, structs=prog.structs),
                     joint.concrete_inputs(prog.globals, vals, prefix="g_", structs=prog.structs), gnames)
    except (RecursionError, TimeoutError):
        return None
    except Exception as e:  # noqa: BLE001
        if vm_failure_kind(e) == "internal":
            return dict(vm_exception=f"{type(e).__name__}: {e}", args=joint.concrete_inputs(f.params, vals, structs=prog.structs))
    finally:
        signal.setitimer(signal.ITIMER_REAL, 0)
        signal.signal(signal.SIGALRM, old)
    return None


def family(tier, seed):
    items = f5.family(tier)
    if tier == "quick":
        # the regular tables are thinned in the quick tier; the hand-written corner cases are always complete
        items = [it for k, it in enumerate(items) if not ({"binary", "construct", "assign"} & it.tags) or k % 3 == seed % 3]
    items += f2.all_templates() + core1.all_core() + f3.all_templates()
    f4items = [it for it in f4.family("quick") if not any(t.startswith("trigger:") for t in it.tags)]      # F5 has these shapes itself
    if tier == "quick":
        f4items = [it for k, it in enumerate(f4items) if not ({"swizzle-read", "swizzle-write"} & it.tags) or k % 8 == 0]
    items += f4items
    items += f1.generate(seed, 100 if tier == "quick" else 1500, depth=3, nmax=3)
    items += f3.random_calls(seed, 30 if tier == "quick" else 400)
    items += f4r.generate(seed, 40 if tier == "quick" else 600)
    return items


def run(tier, seed, only=None):
    chk = core.Check(PID, "model_checking", tier, seed,
                     rule="one candidate program per instance; kept when the real front end accepts it. Symbolic inputs of the declared types (ints over 32 bits or bounded "
                          "as stated, uint >= 0, floats, vectors, matrices, arrays, structs). Distinct = distinct source text; non-trivial = accepted and >= 1 VM path explored to "
                          "completion or to a defined failure")
    items = family(tier, seed)
    if only:
        items = [i for i in items if only in i.name or only in i.tags]
    hist = {}
    for it in items:
        for t in it.tags:
            hist[t] = hist.get(t, 0) + 1
    chk.extra["family_tags"] = hist
    chk.assumptions = ["acceptance = parser and all AST passes succeed (read from the stage in which a failure is raised)",
                       "z3 Int/Real model of Python int/float; proxies raise the TypeErrors real numbers would raise; every reported failure is replayed with concrete values",
                       "a path without decisions on symbolic data covers every input; a path with decisions covers every input satisfying its path condition"]
    chk.shims = ["nsl.VM.float", "nsl.VM.int"]
    chk.bounds = {"family": "F5 (13 operators x 14 x 14 types; swizzles; indexing; constructors; assignments and initialisers between all types; compound assignment and ++/-- on every type; "
                            "calls and returns between all types; missing/void returns; statement corner cases) + F1-F4; quick thins the regular tables to one third",
                  "inputs": "all ints in [-256, 256] unless bounded per program; loop/index parameters bounded per program", "paths_per_program": 150,
                  "outside": "programs outside the families; failures of the front end itself (counted, not claimed); wasm generation (C06/C07)"}
    hits = shims.scan_type_tests(os.path.join(core.REPO, "nsl", "VM.py"))
    if hits:
        # modelled since the `isinstance` / `type` shims exist (a proxy answers like the value it stands for); kept as a note
        chk.extra.setdefault("notes", []).append("VM.py tests for exact int/float types (answered by the isinstance/type shims): " + "; ".join(hits[:3]))
    results = core.run_pool("vlib.harness.C05", "run_instance", [famcheck.pack(i) for i in items])
    dedupe_by_sig(results)
    chk.absorb_all(results)
    return chk.finish()


def dedupe_by_sig(results, limit=3):
    seen = {}
    for r in results:
        keep = []
        for v in r.get("violations", []):
            k = v.get("sig") or v["what"][:60]
            seen[k] = seen.get(k, 0) + 1
            if seen[k] <= limit:
                keep.append(v)
        r["violations"] = keep
    return seen
