"""C10 -- overload resolution picks the unique best viable candidate.

Harness A (ranking, solver over scores): real types.Function objects registered with the
real Scope.RegisterFunction in every order; types.Match is replaced by its contract -- an
arbitrary symbolic score in {-1,0,1} per (candidate, argument) -- and Scope.FindFunction /
Function.Match run symbolically.  Oracle (O3): viable iff arity matches and no score is -1;
the winner is the unique viable candidate with the fewest conversions; otherwise the
matching error.
Harness B (Match / IsCompatible meet their contract): the real types.Match on real type
objects with symbolic sizes / extents against vlib.spec_types.match_score.
Harness C (public API, concrete gate + replay channel): overload sets through
Compiler().Compile and the VM; each overload returns a distinct constant.
"""
import io
import os
import random
import itertools
import contextlib
import z3
from .. import symx, core, unit, spec_types as O3
from ..symx import SymNum

PID = "C10"


# ---------------------------------------------------------------- harness A
def _mkfun(tag, nparams):
    from nsl import ast, types
    args = [ast.Argument(types.Integer(), f"p{i}") for i in range(nparams)]
    # distinct type objects per (candidate, position) so that the Match stub can tell them apart
    for a in args:
        a._Argument__type = types.Integer()
    f = types.Function("h", types.Integer(), args)
    f.Resolve(types.Scope())
    f.tag = tag
    return f


def _ranking(inst):
    from nsl import types, Errors
    arities = inst["arities"]          # parameter count per candidate
    nargs = inst["nargs"]
    order = inst["order"]
    NC = len(arities)
    m = [[z3.Int(f"m{c}_{i}") for i in range(nargs)] for c in range(NC)]
    allm = [x for row in m for x in row]
    pre = z3.And(*[z3.And(x >= -1, x <= 1) for x in allm]) if allm else z3.BoolVal(True)
    real_match = types.__dict__["Match"]

    def fn():
        funs = [_mkfun(c, arities[c]) for c in range(NC)]
        argtypes = [types.Integer() for _ in range(nargs)]
        where = {}
        for c, f in enumerate(funs):
            for i, t in enumerate(f.GetArgumentTypes().values()):
                where[id(t)] = (c, i)
        pos = {id(t): i for i, t in enumerate(argtypes)}

        def stub(l, r):
            # contract of types.Match: some score in {-1, 0, 1} for this (argument, parameter) pair
            if id(r) in where and id(l) in pos and where[id(r)][1] == pos[id(l)]:
                c, i = where[id(r)]
                return SymNum(m[c][i])
            if id(l) in where and id(r) in pos and where[id(l)][1] == pos[id(r)]:
                c, i = where[id(l)]
                return SymNum(m[c][i])
            raise TypeError("Match stub called with an unexpected pair -- not modelled")
        types.Match = stub
        try:
            sc = types.Scope()
            for k, c in enumerate(order):
                if k and k == inst.get("probe_after"):
                    # history: the name is resolved once while only some of the overloads are registered (a global initialiser calling
                    # an imported function before the module's own functions exist); the answer then must not stick
                    try:
                        sc.FindFunction(inst.get("call", "h"), argtypes)
                    except Errors.CompileException:
                        pass
                sc.RegisterFunction("h", funs[c])
            try:
                return ("chosen", sc.FindFunction(inst.get("call", "h"), argtypes).tag)
            except Errors.CompileException as e:
                return ("error", e.message.code)
        finally:
            types.Match = real_match

    viable = [z3.And(*[x >= 0 for x in m[c]]) if arities[c] == nargs else z3.BoolVal(False) for c in range(NC)]
    score = [z3.Sum([z3.If(x == 1, 1, 0) for x in m[c]]) if m[c] else z3.IntVal(0) for c in range(NC)]

    def best(c, strict=True):
        others = [z3.Or(z3.Not(viable[d]), (score[c] < score[d]) if strict else (score[c] <= score[d]))
                  for d in range(NC) if d != c]
        return z3.And(viable[c], *others)

    none_viable = z3.And(*[z3.Not(v) for v in viable])

    def good(out, strict=True):
        if out[0] == "chosen":
            return best(out[1], strict)
        # the statement fixes *that* the program is rejected, not which diagnostic is used
        if inst.get("call", "h") != "h":
            return z3.BoolVal(True)
        return z3.And(*[z3.Not(best(c)) for c in range(NC)])

    twin = (lambda out: good(out, strict=False) if out[0] == "chosen" else z3.BoolVal(True)) if NC >= 2 and nargs >= 1 else None
    if twin is not None:
        # the non-strict oracle is only wrong on ties, where the real code raises; use "first registered wins" instead
        twin = lambda out: z3.BoolVal(out == ("chosen", order[0]))  # noqa: E731
    return unit.decide(fn, pre, good, inst=inst, harness="C10", replay=replay, twin=twin)


# ---------------------------------------------------------------- harness B
def _mk_type(desc, V):
    """real nsl.types object for a type description whose sizes are names of symbolic variables"""
    from nsl import types
    comp = {"float": types.Float, "int": types.Integer, "uint": types.UnsignedInteger}
    k = desc[0]
    if k == "scalar":
        return comp[desc[1]]()
    if k == "vector":
        return types.VectorType(comp[desc[1]](), V(desc[2]))
    if k == "matrix":
        return types.MatrixType(comp[desc[1]](), V(desc[2]), V(desc[3]))
    if k == "array":
        return types.ArrayType(_mk_type(desc[1], V), [V(x) for x in desc[2]])
    if k == "struct":
        # a struct type is one object per definition (registered once in the scope)
        from collections import OrderedDict
        if desc[1] not in _STRUCTS:
            fields = OrderedDict([("x", types.Float())] if desc[1] == "A" else [("x", types.Float()), ("y", types.Integer())])
            _STRUCTS[desc[1]] = types.StructType(desc[1], fields)
        return _STRUCTS[desc[1]]
    if k == "void":
        return types.Void()
    raise ValueError(desc)


_STRUCTS = {}


def _subst(desc, f):
    k = desc[0]
    if k == "vector":
        return (k, desc[1], f(desc[2]))
    if k == "matrix":
        return (k, desc[1], f(desc[2]), f(desc[3]))
    if k == "array":
        return (k, _subst(desc[1], f), tuple(f(x) for x in desc[2]))
    return desc


def _vars(desc):
    k = desc[0]
    if k == "vector":
        return [desc[2]]
    if k == "matrix":
        return [desc[2], desc[3]]
    if k == "array":
        return _vars(desc[1]) + list(desc[2])
    return []


def _match(inst):
    from nsl import types
    L, R = _tup(inst["left"]), _tup(inst["right"])
    names = sorted(set(_vars(L) + _vars(R)))
    Z = {n: z3.Int(n) for n in names}
    lo = inst.get("lo", 2)
    pre = z3.And(*[z3.And(Z[n] >= (lo if not n.startswith("e") else 1), Z[n] <= 4) for n in names]) if names else z3.BoolVal(True)

    def fn():
        symx.REPR_CONCRETE = True
        try:
            l = _mk_type(L, lambda n: SymNum(Z[n]))
            r = _mk_type(R, lambda n: SymNum(Z[n]))
            return types.Match(l, r)
        finally:
            symx.REPR_CONCRETE = False

    want = O3.match_score(_subst(L, lambda n: Z[n]), _subst(R, lambda n: Z[n]))

    def good(val):
        return symx.term(val) == want

    return unit.decide(fn, pre, good, inst=inst, harness="C10", replay=replay)


def _tup(x):
    if isinstance(x, list):
        return tuple(_tup(i) for i in x)
    return x


TYPE_SHAPES = [
    ("scalar", "float"), ("scalar", "int"), ("scalar", "uint"),
    ("vector", "float", "n"), ("vector", "int", "n"), ("vector", "float", "k"), ("vector", "uint", "k"),
    ("matrix", "float", "r", "c"), ("matrix", "float", "s", "t"), ("matrix", "int", "s", "t"),
    ("array", ("scalar", "int"), ("e0",)), ("array", ("scalar", "float"), ("e1",)), ("array", ("scalar", "int"), ("e2", "e3")),
    ("array", ("vector", "float", "n"), ("e4",)), ("array", ("scalar", "int"), ("e5", "e6")),
    ("struct", "A"), ("struct", "B"),
]


# ---------------------------------------------------------------- harness C
UNIVERSE = [("scalar", "int"), ("scalar", "float"), ("scalar", "uint"), ("vector", "float", 2), ("vector", "float", 3), ("vector", "int", 3)]


def _program(cands, args):
    lines = []
    for i, ps in enumerate(cands):
        params = ", ".join(f"{O3.spell(t)} a{j}" for j, t in enumerate(ps))
        lines.append(f"function h({params}) -> int {{ return {100 + i}; }}")
    fparams = ", ".join(f"{O3.spell(t)} x{j}" for j, t in enumerate(args))
    call = ", ".join(f"x{j}" for j in range(len(args)))
    lines.append(f"export function f({fparams}) -> int {{ return h({call}); }}")
    return "\n".join(lines)


def _value(t):
    if t[0] == "scalar":
        return 1.5 if t[1] == "float" else 1
    return [1.0 if t[1] == "float" else 1] * t[2]


def run_program(src, args):
    """('ok', value) | ('reject', detail) | ('crash', detail) through the public API."""
    from nsl import Compiler, LinearIR, VM
    out = io.StringIO()
    try:
        with contextlib.redirect_stdout(out), contextlib.redirect_stderr(out):
            r = Compiler.Compiler().Compile(src)
    except SystemExit:
        return ("syntax", "")
    except Exception as e:  # noqa: BLE001
        return ("reject", f"{type(e).__name__}: {e}")
    if r is None:
        return ("reject", "Compile returned None")
    # static observation: the call target recorded in the IR of f
    target = None
    for ins in r.IRModule.Functions["f"].Instructions:
        if isinstance(ins, LinearIR.CallInstruction):
            target = ins.Function
    try:
        with contextlib.redirect_stdout(out), contextlib.redirect_stderr(out):
            lk = LinearIR.Linker()
            lk.AddModule(r.IRModule)
            vm = VM.VirtualMachine(lk.Link())
            v = vm.Invoke("f", **{f"x{j}": _value(t) for j, t in enumerate(args)})
        return ("ok", v, target)
    except Exception as e:  # noqa: BLE001
        return ("crash", f"{type(e).__name__}: {e}", target)


def _split_program(cands, args, in_lib):
    """the overload set split over an import edge: candidates with an index in `in_lib` are declared by a library module (stored in a scratch
    directory), the others and the caller by the importing module.  -> (text for the report, outcome as run_program gives it)"""
    import pickle, tempfile, shutil
    from nsl import Compiler
    lines = _program(cands, args).split("\n")
    lib = "\n".join(l for i, l in enumerate(lines[:-1]) if i in in_lib)
    tmp = tempfile.mkdtemp(prefix="verif-c10-")
    try:
        out = io.StringIO()
        try:
            with contextlib.redirect_stdout(out), contextlib.redirect_stderr(out):
                r = Compiler.Compiler().Compile(lib)
        except Exception as e:  # noqa: BLE001 -- e.g. two identical signatures inside the library: not a case of this family
            return None, None
        if r is None:
            return None, None
        path = os.path.join(tmp, "lib.nslir")
        with open(path, "wb") as f:
            pickle.dump(r.IRModule, f)
        main = f'import "{path}";\n' + "\n".join(l for i, l in enumerate(lines[:-1]) if i not in in_lib) + "\n" + lines[-1]
        return ("-- library --\n" + lib + "\n-- importing module --\n" + main.replace(path, "lib.nslir")), run_program(main, args)
    finally:
        shutil.rmtree(tmp, ignore_errors=True)


def _check_program(cands, args, in_lib=None):
    src = _program(cands, args)
    want = O3.resolve(cands, args)
    if in_lib:
        src, got = _split_program(cands, args, set(in_lib))
        if src is None:
            return None
    else:
        got = run_program(src, args)
    if want[0] == "ok":
        mangled = "@h->int`" + ",".join(O3.spell(t) for t in cands[want[1]])
        if got[0] == "ok":
            ok = got[1] == 100 + want[1] and got[2] == mangled
        elif got[0] == "crash":
            # the VM cannot run the program for an unrelated reason (e.g. vector casts, C05): fall back to
            # the call target recorded in the IR
            ok = got[2] == mangled
        else:
            ok = False
    else:
        ok = got[0] == "reject"
    if ok:
        return None
    return dict(source=src, expected=want, observed=got)


def _public(inst):
    res = dict(paths=0, queries=0, unsat=0, sat=0, violations=[], errors=[], nontrivial=True)
    rnd = random.Random(inst["seed"])
    bad = []
    U = UNIVERSE
    sigs1 = [(t,) for t in U]
    sigs2 = [(a, b) for a in U for b in U]

    def cases():
        if inst["family"] == "1p-pairs":
            for c in itertools.product(sigs1, repeat=2):
                for a in sigs1:
                    yield list(c), list(a)
        elif inst["family"] == "1p-triples":
            for c in itertools.product(sigs1, repeat=3):
                for a in sigs1:
                    yield list(c), list(a)
        elif inst["family"] == "2p-pairs":
            allc = [(c1, c2, a) for c1 in sigs2 for c2 in sigs2 for a in sigs2]
            if inst.get("sample"):
                allc = rnd.sample(allc, inst["sample"])
            for c1, c2, a in allc:
                yield [c1, c2], list(a)
        elif inst["family"] == "mixed-arity":
            for c1 in sigs1:
                for c2 in rnd.sample(sigs2, 8):
                    for a in list(sigs1) + rnd.sample(sigs2, 6):
                        yield [c1, c2], list(a)
                        yield [c2, c1], list(a)
        elif inst["family"] == "unknown":
            yield [], [U[0]]
            yield [], []
        elif inst["family"] == "import-split":
            # overload sets of two and three one-parameter functions, every non-empty part of them declared by an imported module
            sets = [list(c) for c in itertools.product(sigs1, repeat=2) if c[0] != c[1]] + rnd.sample([list(c) for c in itertools.product(sigs1, repeat=3) if len(set(c)) == 3], 40)
            for c in sets:
                for k in range(1, len(c) + 1):
                    for part in itertools.combinations(range(len(c)), k):
                        for a in rnd.sample(sigs1, 3):
                            yield c, list(a), list(part)
    for idx, case in enumerate(cases()):
        cands, args = case[0], case[1]
        in_lib = case[2] if len(case) > 2 else None
        if idx % inst.get("of", 1) != inst.get("shard", 0):
            continue
        res["paths"] += 1
        b = _check_program(cands, args, in_lib)
        if b:
            b["in_lib"] = in_lib
            bad.append((cands, args, b))
    seen = set()
    for cands, args, b in bad:
        key = (b["expected"][0], b["observed"][0])
        if key in seen:
            continue
        seen.add(key)
        res["violations"].append(dict(what=f"overload resolution ({len(bad)} programs of this family differ), e.g. expected {b['expected']} observed {b['observed']} for\n{b['source']}",
                                      replay=dict(harness="C10", inst=dict(part="public"), cands=cands, args=args, in_lib=b.get("in_lib"))))
    return res


# ---------------------------------------------------------------- replay
def replay(spec):
    inst = spec["inst"]
    part = inst.get("part")
    if part == "public":
        return _check_program([tuple(_tup(t) for t in c) for c in _tup(spec["cands"])], [_tup(t) for t in _tup(spec["args"])], spec.get("in_lib"))
    inp = spec.get("inputs", {})
    if part == "ranking":
        # realise the scores with int arguments: parameter int -> 0, float -> 1, float2 -> -1
        real = {0: ("scalar", "int"), 1: ("scalar", "float"), -1: ("vector", "float", 2)}
        arities, nargs, order = inst["arities"], inst["nargs"], inst["order"]
        cands = {}
        for c, ar in enumerate(arities):
            if ar == nargs:
                cands[c] = tuple(real[inp.get(f"m{c}_{i}", 0)] for i in range(nargs))
            else:
                cands[c] = tuple(("scalar", "int") for _ in range(ar))
        ordered = [cands[c] for c in order]
        args = [("scalar", "int")] * nargs
        if inst.get("probe_after"):
            return _scope_history(ordered, args, inst["probe_after"])
        if inst.get("call", "h") != "h":
            src = _program(ordered, args).replace("return h(", "return nosuch(")
            got = run_program(src, args)
            return None if got[0] == "reject" else dict(source=src, observed=got)
        return _check_program(ordered, args)
    if part == "match":
        from nsl import types
        L, R = _tup(inst["left"]), _tup(inst["right"])
        lo = inst.get("lo", 2)
        val = lambda n: inp.get(n, lo if not n.startswith("e") else 1)  # noqa: E731
        try:
            got = types.Match(_mk_type(L, val), _mk_type(R, val))
        except Exception as e:  # noqa: BLE001
            return dict(left=_subst(L, val), right=_subst(R, val), error=f"{type(e).__name__}: {e}")
        want = z3.simplify(O3.match_score(_subst(L, val), _subst(R, val))).as_long()
        return None if got == want else dict(left=_subst(L, val), right=_subst(R, val), match=got, expected=want)
    return None


def _real_type(t):
    from nsl import types
    comp = {"int": types.Integer, "float": types.Float, "uint": types.UnsignedInteger}[t[1]]()
    return comp if t[0] == "scalar" else types.VectorType(comp, t[2])


def _scope_history(ordered, args, probe_after):
    """the history of a ranking instance on nsl.types.Scope with real types: register some overloads, resolve, register the rest, resolve"""
    from nsl import ast, types, Errors
    sc = types.Scope()
    funs = []
    for i, ps in enumerate(ordered):
        f = types.Function("h", types.Integer(), [ast.Argument(_real_type(t), f"p{j}") for j, t in enumerate(ps)])
        f.Resolve(sc)
        funs.append(f)
    argtypes = [_real_type(t) for t in args]
    for k, f in enumerate(funs):
        if k and k == probe_after:
            try:
                sc.FindFunction("h", argtypes)
            except Errors.CompileException:
                pass
        sc.RegisterFunction("h", f)
    want = O3.resolve(ordered, args)
    try:
        got = ("ok", funs.index(sc.FindFunction("h", argtypes)))
    except Errors.CompileException as e:
        got = ("reject", str(e.message.code))
    if want[0] == "ok":
        return None if got == ("ok", want[1]) else dict(overloads=[[O3.spell(t) for t in c] for c in ordered], arguments=[O3.spell(t) for t in args],
                                                        resolved_once_after=probe_after, expected=want, observed=got)
    return None if got[0] == "reject" else dict(overloads=[[O3.spell(t) for t in c] for c in ordered], arguments=[O3.spell(t) for t in args],
                                                resolved_once_after=probe_after, expected=want, observed=got)


def run_instance(inst):
    r = {"ranking": _ranking, "match": _match, "public": _public}[inst["part"]](inst)
    r["sample"] = dict(inst)
    r["key"] = repr(sorted((k, str(v)) for k, v in inst.items()))
    r["funcs"] = {"ranking": ["nsl.types.Scope.RegisterFunction", "nsl.types.Scope.FindFunction", "nsl.types.Function.Match"],
                  "match": ["nsl.types.Match", "nsl.types.IsCompatible", "nsl.types.PrimitiveType.__eq__"],
                  "public": ["nsl.Compiler.Compiler.Compile", "nsl.passes.ComputeTypes.ComputeTypeVisitor._ProcessExpression",
                             "nsl.ast.CallExpression.ResolveType", "nsl.types.ResolveFunction", "nsl.passes.AddImplicitCasts.AddImplicitCastVisitor.v_CallExpression",
                             "nsl.VM.VirtualMachine.Invoke"]}[inst["part"]]
    return r


def instances(tier, seed):
    out = []
    shapes = [((0,), 0), ((1,), 1), ((2,), 2), ((1, 1), 1), ((2, 2), 2), ((0, 0), 0), ((1, 2), 1), ((1, 2), 2), ((2, 1), 2),
              ((1, 1, 1), 1), ((2, 2, 2), 2), ((1, 2, 2), 2), ((2, 1, 2), 2)]
    for arities, nargs in shapes:
        for order in itertools.permutations(range(len(arities))):
            out.append(dict(part="ranking", arities=list(arities), nargs=nargs, order=list(order)))
            for j in range(1, len(arities)):
                out.append(dict(part="ranking", arities=list(arities), nargs=nargs, order=list(order), probe_after=j))
    out.append(dict(part="ranking", arities=[1], nargs=1, order=[0], call="nosuch"))
    for L in TYPE_SHAPES:
        for R in TYPE_SHAPES:
            out.append(dict(part="match", left=L, right=R))
    if tier == "quick":
        out.append(dict(part="public", family="1p-pairs", seed=seed))
        out += [dict(part="public", family="1p-triples", seed=seed, shard=s, of=4) for s in range(4)]
        out += [dict(part="public", family="2p-pairs", seed=seed, sample=2400, shard=s, of=8) for s in range(8)]
    else:
        out.append(dict(part="public", family="1p-pairs", seed=seed))
        out += [dict(part="public", family="1p-triples", seed=seed, shard=s, of=4) for s in range(4)]
        out += [dict(part="public", family="2p-pairs", seed=seed, shard=s, of=32) for s in range(32)]
    out.append(dict(part="public", family="mixed-arity", seed=seed))
    out += [dict(part="public", family="import-split", seed=seed, shard=sh, of=4) for sh in range(4)]
    out.append(dict(part="public", family="unknown", seed=seed))
    return out


def run(tier, seed, only=None):
    chk = core.Check(PID, "model_checking", tier, seed,
                     rule="A: one instance per (candidate arities, argument count, registration order), per-argument scores symbolic in {-1,0,1}; "
                          "B: one instance per ordered pair of type shapes with symbolic sizes/extents; C: overload sets x argument lists through the "
                          "public API (concrete). Non-trivial = a query over the symbolic scores/sizes was discharged, or programs were run")
    chk.bounds = {"A": "1-3 candidates x 0-2 parameters, equal and mixed arity, every registration order",
                  "B": f"{len(TYPE_SHAPES)}^2 ordered pairs of type shapes; vector/matrix sizes 2-4, array extents 1-4, rank 1-2",
                  "C": "universe {int,float,uint,float2,float3,int3}: all ordered pairs and triples of 1-parameter overloads x all arguments; "
                       "2-parameter pairs (sample of 2400 by VERIF_SEED in quick, all 46656 in thorough); mixed arity; unknown name",
                  "outside": "optional parameters (__optional); more than 3 candidates; single-component vectors (not spellable)"}
    chk.assumptions = ["contract of types.Match: returns -1, 0 or 1 per (argument, parameter) (harness B checks the real Match against it)",
                       "repr() of a symbolic size forks over its feasible values (PrimitiveType.__eq__ compares reprs)"]
    insts = [i for i in instances(tier, seed) if only in (None, i["part"])]
    results = core.run_pool("vlib.harness.C10", "run_instance", insts)
    for inst, r in zip(insts, results):
        chk.absorb(r, part=inst["part"])
    return chk.finish()
