"""Shared pipeline of the WebAssembly checks (C06, C07).

A family member is compiled by the real front end and lowering; the integer literals written
as distinct placeholders are then replaced by symbolic constants in the IR; the real
GenerateWasm pass and the real Module.WriteTo run on that IR (BytesIO shim), so the emitted
byte string contains symbolic bytes; the reference decoder / validator / evaluator O2
(vlib/wasmref.py) reads it back inside the same exploration.  The VM runs on the same IR.
"""
import io
import re
import random
import itertools
import contextlib
import z3
from .. import core, symx, shims, unit, wasmref
from ..symx import Engine, SymNum
from ..nslref import joint
from ..nslref.interp import deep
from . import famcheck

PLACEHOLDER0 = 7001


# ----------------------------------------------------------------------------- families
def _expr(rnd, depth, leaves, ops):
    if depth == 0 or rnd.random() < 0.25:
        return rnd.choice(leaves)
    op = rnd.choice(ops)
    return f"({_expr(rnd, depth - 1, leaves, ops)} {op} {_expr(rnd, depth - 1, leaves, ops)})"


def family_s(tier, seed):
    """straight-line subset S: int/float parameters, integer constants, + - * /, == < >, return"""
    out = []
    ops_i = ["+", "-", "*", "/", "==", "<", ">"]
    ops_f = ["+", "-", "*", "/"]
    K = ["K0", "K1"]
    # exhaustive depth <= 2 over two parameters and one constant
    for t, ops in (("int", ops_i), ("float", ops_f)):
        leaves = ["a", "b"] + (["K0"] if t == "int" else [])
        for op in ops:
            for l, r in itertools.product(leaves, repeat=2):
                out.append(dict(src=f"export function f({t} a, {t} b) -> {t} {{ return {l} {op} {r}; }}", name=f"S {t} {l}{op}{r}", tags=["S"]))
        for op1, op2 in itertools.product(ops, repeat=2):
            for shape in ("(a {0} b) {1} {2}", "{2} {1} (a {0} b)"):
                for leaf in leaves:
                    if t == "float" and leaf.startswith("K"):
                        continue
                    e = shape.format(op1, op2, leaf)
                    out.append(dict(src=f"export function f({t} a, {t} b) -> {t} {{ return {e}; }}", name=f"S {t} {e}", tags=["S"]))
    rnd = random.Random(f"wasm/{seed}")
    for k in range(120 if tier == "quick" else 1500):
        t = rnd.choice(["int", "int", "float"])
        leaves = ["a", "b", "c"] + (K if t == "int" else [])
        e = _expr(rnd, 3, leaves, ops_i if t == "int" else ops_f)
        out.append(dict(src=f"export function f({t} a, {t} b, {t} c) -> {t} {{ return {e}; }}", name=f"S random {k}", tags=["S", "random"]))
    # constants of every size next to every operator
    for op in ops_i:
        out.append(dict(src=f"export function f(int a) -> int {{ return a {op} K0; }}", name=f"S a{op}K", tags=["S", "wide-constant"]))
        out.append(dict(src=f"export function f(int a) -> int {{ return K0 {op} a; }}", name=f"S K{op}a", tags=["S", "wide-constant"]))
    # unsigned operands over the whole 32-bit range: the signed and the unsigned instruction differ when the top bit is set
    for op in ("/", "<", ">", "=="):
        out.append(dict(src=f"export function f(uint a, uint b) -> {'uint' if op == '/' else 'int'} {{ return a {op} b; }}", name=f"S uint {op} uint (wide)", tags=["S", "wide-uint"]))
        out.append(dict(src=f"export function f(int a, int b) -> int {{ return a {op} b; }}", name=f"S int {op} int (before/after the unsigned one)", tags=["S"]))
    # one literal used by an unsigned and by a signed operation of the same function (constants are shared per function: the signedness of an
    # instruction must come from its operands' types, whichever use created the constant), in both orders and operand positions
    for L in ("1", "2", "7"):
        for ustmt in ("u++;", "--u;", f"u = u / {L};", f"u = u + {L};", f"u = {L} < u;"):
            for iexpr in (f"{L} < i", f"{L} > i", f"{L} / i", f"i / {L}", f"i < {L}", f"i > {L}", f"{L} == i"):
                if L != "1" and ustmt in ("u++;", "--u;"):
                    continue
                out.append(dict(src=f"export function f(uint u, int i) -> int {{ {ustmt} return {iexpr}; }}", name=f"S shared literal {L}: `{ustmt}` then `{iexpr}`", tags=["S", "signedness"]))
                out.append(dict(src=f"export function f(uint u, int i) -> int {{ i = {iexpr}; {ustmt} return i; }}", name=f"S shared literal {L}: `{iexpr}` then `{ustmt}`", tags=["S", "signedness"]))
    # operations on two constants (a generator may fold them): the result is what the VM computes for those operands
    for op in ops_i:
        out.append(dict(src=f"export function f(int a) -> int {{ return K0 {op} K1; }}", name=f"S K0{op}K1", tags=["S", "constant-operands"]))
        out.append(dict(src=f"export function f(int a) -> int {{ return a + K0 {op} K1; }}", name=f"S a+K0{op}K1", tags=["S", "constant-operands"]))
        out.append(dict(src=f"export function f(int a) -> int {{ return (K0 {op} K1) * a - (K1 {op} K0); }}", name=f"S (K0{op}K1)*a-(K1{op}K0)", tags=["S", "constant-operands"]))
    out.append(dict(src="export function f() -> int { return K0; }", name="S K", tags=["S", "wide-constant"]))
    out.append(dict(src="export function f(int a) -> int { a = K0; return a; }", name="S store K to argument", tags=["S", "wide-constant"]))
    out.append(dict(src="export function f(int a, int b) -> int { a = a + b; b = a * K0; return a - b; }", name="S argument stores", tags=["S"]))
    out.append(dict(src="export function f(float a, float b) -> float { a = a * b; return a + b; }", name="S float argument store", tags=["S"]))
    return out


def family_shapes(tier, seed):
    """module shapes: 1-4 functions, 0-4 parameters and mixed int/float values in every order, void and non-void results"""
    out = []
    types = ["int", "float"]
    for n in range(0, 5):
        for ci, combo in enumerate(itertools.product(types, repeat=n)):
            if n == 4 and tier == "quick" and ci % 3:
                continue
            params = ", ".join(f"{t} p{i}" for i, t in enumerate(combo))
            ints = [f"p{i}" for i, t in enumerate(combo) if t == "int"]
            flts = [f"p{i}" for i, t in enumerate(combo) if t == "float"]
            # int result from int params; float result from float params; values of both types live at the same time
            body_i = " + ".join(ints) if ints else "K0"
            body_f = " * ".join(flts) if flts else None
            out.append(dict(src=f"export function f({params}) -> int {{ return {body_i}; }}", name=f"shape ({', '.join(combo)}) -> int", tags=["shape"]))
            if body_f:
                out.append(dict(src=f"export function f({params}) -> float {{ return {body_f}; }}", name=f"shape ({', '.join(combo)}) -> float", tags=["shape"]))
            if ints and flts:
                # interleaved int and float temporaries: locals of both types in declaration order
                out.append(dict(src=f"export function f({params}) -> float {{ return ({flts[0]} + {flts[0]}) * ({flts[-1]} - {flts[0]}); }}", name=f"shape ({', '.join(combo)}) float temps", tags=["shape"]))
                out.append(dict(src=f"export function f({params}) -> int {{ {ints[0]} = {ints[0]} + K0; {flts[0]} = {flts[0]} * {flts[0]}; return {ints[0]} * {ints[-1]}; }}",
                                name=f"shape ({', '.join(combo)}) mixed temps", tags=["shape", "mixed-locals"]))
            out.append(dict(src=f"export function f({params}) -> void {{ return; }}", name=f"shape ({', '.join(combo)}) -> void", tags=["shape", "void"]))
    # several functions: export indices, type indices, bodies in order
    fns = ["export function f0(int a) -> int { return a + K0; }", "export function f1(float a, float b) -> float { return a * b; }",
           "export function f2(int a, int b) -> int { return a - b; }", "export function f3() -> int { return K1; }", "export function f4(int a) -> void { a = a + 1; return; }"]
    for n in (2, 3, 4):
        for pi, perm in enumerate(itertools.permutations(range(5), n)):
            if tier == "quick" and pi % 4:
                continue
            src = "\n".join(fns[i] for i in perm)
            out.append(dict(src=src, name=f"functions {perm}", tags=["shape", "multi"], entry=f"f{perm[-1]}"))
    # functions sharing one signature (type entries may be shared; function, type and export indices must still line up), every function as entry
    same = ["export function s0(int a, int b) -> int { return a + b; }", "export function s1(int a, int b) -> int { return a * b; }",
            "export function s2(int a, int b) -> int { return a - b - K0; }", "export function t0(float a) -> float { return a * a; }",
            "export function t1(float a) -> float { return a + a; }", "export function s3(int a) -> int { return a * K1; }"]
    combos = [(0, 1), (1, 0), (0, 1, 2), (3, 4), (0, 3, 1, 4), (5, 0, 1), (3, 0, 4, 1, 2), (0, 5, 1, 3)]
    for combo in combos:
        src = "\n".join(same[i] for i in combo)
        for i in combo:
            nm = same[i].split("function ")[1].split("(")[0]
            out.append(dict(src=src, name=f"same-signature functions {combo} entry {nm}", tags=["shape", "multi", "same-signature"], entry=nm))
    out.append(dict(src="export function f(int a) -> int { return a; }\nfunction hidden(int a) -> int { return a + 1; }", name="non-exported function beside an exported one", tags=["shape", "multi"]))
    out.append(dict(src="export function a_rather_long_function_name_that_needs_more_than_one_hundred_and_twenty_seven_bytes_for_its_length_prefix_0123456789_0123456789_01234(int a) -> int { return a; }",
                    name="long export name", tags=["shape"], entry="a_rather_long_function_name_that_needs_more_than_one_hundred_and_twenty_seven_bytes_for_its_length_prefix_0123456789_0123456789_01234"))
    return out


def family_outside(tier, seed):
    """programs outside S: the backend must refuse them or translate them correctly"""
    from ..gen import core1, f3
    items = core1.all_core() + f3.all_templates()
    rnd = random.Random(f"wasm-out/{seed}")
    items = rnd.sample(items, 150 if tier == "quick" else len(items))
    out = [dict(src=it.src(), name="outside: " + it.name, tags=["outside"], bounds={k: list(v) for k, v in it.bounds.items()}) for it in items]
    for op in ("<=", ">=", "!=", "%", "&&", "||"):
        out.append(dict(src=f"export function f(int a, int b) -> int {{ return a {op} b; }}", name=f"outside: int {op}", tags=["outside"]))
    for op in ("==", "<", ">", "<=", ">=", "!="):
        out.append(dict(src=f"export function f(float a, float b) -> int {{ return a {op} b; }}", name=f"outside: float {op}", tags=["outside"]))
    out += [
        dict(src="export function f(int a, float b) -> float { return a + b; }", name="outside: cast", tags=["outside"]),
        dict(src="export function f(float a) -> float { return a + 1.5; }", name="outside: float constant", tags=["outside"]),
        dict(src="export function f(uint a, uint b) -> uint { return a / b; }", name="outside: uint division", tags=["outside"]),
        dict(src="export function f(uint a, uint b) -> int { return a < b; }", name="outside: uint comparison", tags=["outside"]),
        dict(src="int g;\nexport function f(int a) -> int { g = a; return a; }", name="outside: global store", tags=["outside"]),
        dict(src="int g;\nexport function f(int a) -> int { return a + g; }", name="outside: global load", tags=["outside"]),
        dict(src="export function f(int a) -> int { int x; return a; }", name="outside: unused local", tags=["outside"]),
        dict(src="export function f(float3 v) -> float { return v.x; }", name="outside: vector parameter", tags=["outside"]),
        dict(src="export function f(int a) -> int { a; return a; }", name="outside: expression statement", tags=["outside"]),
    ]
    # parameters and results that are not wasm value types, used or not: the signature itself must be refused (or be valid)
    S = "struct S { int i; float f; }\n"
    for T in ("float2", "float3", "float4", "int3", "uint2", "float3x3", "float4x4", "int[3]", "float[2]", "int[2][2]", "float3[2]", "S", "S[2]"):
        pre = S if T.startswith("S") else ""
        out.append(dict(src=pre + f"export function f({T} v, int b) -> int {{ return b + 1; }}", name=f"outside: unused {T} parameter", tags=["outside", "aggregate-signature"]))
        out.append(dict(src=pre + f"export function f(int b, {T} v) -> int {{ return b; }}", name=f"outside: unused trailing {T} parameter", tags=["outside", "aggregate-signature"]))
        out.append(dict(src=pre + f"export function f({T} v) -> void {{ return; }}", name=f"outside: {T} parameter of a void function", tags=["outside", "aggregate-signature"]))
        out.append(dict(src=pre + f"export function f({T} v) -> {T} {{ return v; }}", name=f"outside: {T} passed through", tags=["outside", "aggregate-signature"]))
        out.append(dict(src=pre + f"function h({T} v, int b) -> int {{ return b; }}\nexport function f(int a) -> int {{ return a + 1; }}", name=f"outside: {T} parameter of a function that is not exported", tags=["outside", "aggregate-signature"]))
    return out


# ----------------------------------------------------------------------------- pipeline
def instantiate(src, nconst):
    """replace K0, K1, ... by distinct placeholder literals"""
    for k in range(nconst):
        src = src.replace(f"K{k}", str(PLACEHOLDER0 + k))
    return src


def count_constants(src):
    ks = [int(k) for k in re.findall(r"\bK(\d)\b", src)]
    return max(ks) + 1 if ks else 0


def compile_ir(src):
    """front end + lowering (no wasm); -> Compiler.Result"""
    return joint.compile_source(src, optimize=False)


def generate_wasm(ir_module):
    """the wasm branch of Compiler.Compile, on a given IR module: real pass, real Finalize"""
    from nsl.passes import GenerateWasm
    p = GenerateWasm.GetPass()
    with contextlib.redirect_stdout(io.StringIO()):
        p.Process(ir_module)
    return p.Visitor.Finalize()


def write_module(wm):
    from nsl import WebAssembly as W
    buf = W.io.BytesIO() if hasattr(W.io, "BytesIO") else io.BytesIO()
    wm.WriteTo(buf)
    return buf.getbuffer() if isinstance(buf, shims.ShimBuf) else list(buf.getvalue())


def symbolise_constants(ir_module, nconst, zvars, pre, lo, hi):
    """replace the payload of the placeholder constants by symbolic integers; -> {k: SymNum}"""
    syms = {}
    for fn in ir_module.Functions.values():
        for c in fn.Constants:
            v = c.Value
            if isinstance(v, int) and PLACEHOLDER0 <= v < PLACEHOLDER0 + nconst:
                k = v - PLACEHOLDER0
                if k not in syms:
                    z = z3.Int(f"K{k}")
                    zvars.append((f"K{k}", z, "int"))
                    pre.append(z3.And(z >= lo, z <= hi))
                    syms[k] = SymNum(z)
                # the payload lives in a private attribute: find it by its content instead of by its (mangled) name
                slots = [a for a, val in vars(c).items() if isinstance(val, int) and not isinstance(val, bool) and val == v]
                if len(slots) != 1:
                    raise core.HarnessError(f"could not locate the payload of a ConstantValue (attributes holding it: {slots})")
                setattr(c, slots[0], syms[k])
                if c.Value is not syms[k]:
                    raise core.HarnessError("could not substitute a symbolic constant (ConstantValue.Value does not return the payload)")
    return syms


class Emission:
    """observes which IR instruction is being translated and how many wasm instructions it produced (namespace wrappers, checker process only)"""

    def __init__(self):
        self.per_instruction = []

    def __enter__(self):
        from nsl.passes import GenerateWasm
        from nsl import WebAssembly as W, LinearIR as IR
        self.GW, self.W = GenerateWasm, W
        self.orig_visit = GenerateWasm.GenerateWasmVisitor.v_Visit
        self.orig_add = W.Code.AddInstruction
        em = self
        em.count = 0

        def add(code, instruction):
            em.count += 1
            return em.orig_add(code, instruction)

        def visit(vis, obj, ctx=None):
            if isinstance(obj, IR.Instruction):
                before = em.count
                r = em.orig_visit(vis, obj, ctx)
                em.per_instruction.append((type(obj).__name__, obj.OpCode.name, em.count - before))
                return r
            return em.orig_visit(vis, obj, ctx)
        W.Code.AddInstruction = add
        GenerateWasm.GenerateWasmVisitor.v_Visit = visit
        return self

    def __exit__(self, *a):
        self.W.Code.AddInstruction = self.orig_add
        self.GW.GenerateWasmVisitor.v_Visit = self.orig_visit

    def dropped(self):
        return [(cls, op) for cls, op, n in self.per_instruction if n == 0]


def public_compile_wasm(src):
    """Public API: Compile(src, {'wasm': True}) and WriteTo.  -> ("refused", text) | ("bytes", bytes)"""
    from nsl import Compiler
    out = io.StringIO()
    try:
        with contextlib.redirect_stdout(out), contextlib.redirect_stderr(out):
            r = Compiler.Compiler().Compile(src, {"wasm": True})
        if r is None or r.WasmModule is None:
            return "refused", "Compile returned no module"
        buf = io.BytesIO()
        r.WasmModule.WriteTo(buf)
        return "bytes", buf.getvalue()
    except SystemExit:
        return "refused", "syntax error"
    except Exception as e:  # noqa: BLE001
        return "refused", f"{type(e).__name__}: {str(e)[:120]}"


def wasmtime_check(data):
    """-> None if a conforming engine accepts the module, else the engine's message"""
    import wasmtime
    try:
        wasmtime.Module(wasmtime.Engine(), bytes(data))
        return None
    except Exception as e:  # noqa: BLE001
        return str(e).strip().splitlines()[0][:200] if str(e).strip() else type(e).__name__


def wasmtime_call(data, fname, args):
    import wasmtime
    store = wasmtime.Store()
    m = wasmtime.Module(store.engine, bytes(data))
    inst = wasmtime.Instance(store, m, [])
    f = inst.exports(store)[fname]
    return f(store, *args)


def selftest():
    """O2 and wasmtime must agree on a hand-assembled valid module and on three broken variants of it"""
    good = bytes.fromhex("0061736d01000000" "0107016002 7f7f017f".replace(" ", "") + "03020100" "070501016600 00".replace(" ", "") + "0a09010700200020016a0b")
    variants = {"good": good, "bad type index": good.replace(bytes.fromhex("03020100"), bytes.fromhex("03020105")), "body size": good[:-9] + bytes([8]) + good[-8:],
                "type mismatch": good.replace(bytes.fromhex("20016a0b"), bytes.fromhex("2001920b")), "export index": good.replace(bytes.fromhex("0166 0000".replace(" ", "")), bytes.fromhex("01660003"))}
    problems = []
    for name, b in variants.items():
        try:
            wasmref.validate(wasmref.decode(list(b)))
            ours = None
        except (wasmref.Malformed, wasmref.Invalid) as e:
            ours = str(e)
        theirs = wasmtime_check(b)
        if (ours is None) != (theirs is None):
            problems.append(f"{name}: reference validator says {ours!r}, wasmtime says {theirs!r}")
        if name == "good" and ours is not None:
            problems.append(f"hand-assembled module rejected: {ours}")
    return problems
