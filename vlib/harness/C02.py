"""C02 -- optimisation never changes observable behaviour.

Differential check: every family member is compiled by the real compiler with optimisation
disabled and enabled (OptimizeConstantCasts, OptimizeLoadAfterStore and the deferred
replace / replace-uses machinery of LinearIR); both modules run on the real VM on the same
symbolic inputs inside one exploration; z3 decides per joint path that no input makes return
value, globals or the kind of failure differ.  Accept/reject must agree (concrete)."""
from .. import core
from ..gen import core1, f1, f2, f3, f4, f4r
from ..nslref import joint
from ..nslref.parse import parse
from . import famcheck, diffcheck

PID = "C02"


def family(tier, seed):
    items = f2.all_templates()
    items += core1.all_core()
    items += f3.all_templates()
    f4items = f4.family("quick")
    if tier == "quick":
        # every 6th member of the (regular, table-generated) vector family plus everything that is not a plain swizzle
        f4items = [it for k, it in enumerate(f4items) if not ({"swizzle-read", "swizzle-write"} & it.tags) or k % 6 == 0]
    items += [it for it in f4items if not any(t.startswith("trigger:") for t in it.tags)]
    items += f1.generate(seed, 120 if tier == "quick" else 2000, depth=3, nmax=3)
    items += f3.random_calls(seed, 40 if tier == "quick" else 600)
    items += f4r.generate(seed, 60 if tier == "quick" else 800)
    return items


def _build(src, optimize):
    try:
        return joint.link(joint.compile_source(src, optimize=optimize)), None
    except joint.Rejected as e:
        return None, e


def run_instance(inst):
    src = inst["source"]
    prog = parse(src)
    ref, e0 = _build(src, False)
    opt, e1 = _build(src, True)
    res = dict(paths=0, queries=0, unsat=0, sat=0, undecided=0, cut=0, violations=[], errors=[], nontrivial=False, known=[])
    res["sample"] = dict(name=inst.get("name"), source=src[:400])
    res["key"] = src
    res["funcs"] = FUNCS
    if (ref is None) != (opt is None):
        which = "optimised" if opt is None else "unoptimised"
        e = e1 if opt is None else e0
        res["violations"].append(dict(what=f"accept/reject differs: the {which} compilation fails ({e}) while the other succeeds",
                                      replay=dict(harness="C02", inst=inst, kind="accept")))
        return res
    if ref is None:
        if "may-reject" not in inst.get("tags", []):
            res["errors"].append(f"family member is rejected at both optimisation levels ({e0}): {src[:200]}")
        return res
    r = diffcheck.check_pair(prog, inst["fname"], ref, opt, harness="C02", inst=inst, extra_pre=famcheck.make_pre(inst), label=("unoptimised", "optimised"),
                             replay_fn=lambda vals: diffcheck.concrete_pair(prog, inst["fname"], *_fresh(src), vals, label=("unoptimised", "optimised")))
    r["sample"] = dict(name=inst.get("name"), source=src[:400], paths=r["paths"])
    n0 = sum(len(f.Instructions) for f in ref.Functions.values())
    n1 = sum(len(f.Instructions) for f in opt.Functions.values())
    r["counters"] = {"programs_where_an_optimisation_fired": int(n0 != n1), "instructions_removed": n0 - n1}
    r["key"] = src
    r["funcs"] = FUNCS
    return r


def _fresh(src):
    return _build(src, False)[0], _build(src, True)[0]


FUNCS = ["nsl.Compiler.Compiler.Compile", "nsl.passes.OptimizeLoadAfterStore.OptimizeLoadAfterStoreVisitor.v_VariableAccessInstruction",
         "nsl.passes.OptimizeConstantCasts.OptimizeConstantCastVisitor.v_CastInstruction", "nsl.LinearIR.BasicBlock._Traverse", "nsl.LinearIR.BasicBlock.Replace",
         "nsl.LinearIR.BasicBlock.ReplaceUses", "nsl.LinearIR.Function.ReplaceUses", "nsl.LinearIR.Function.UpdateUses", "nsl.LinearIR.Function.CreateConstant",
         "nsl.LinearIR.*Instruction.ReplaceUses", "nsl.VM.ExecutionContext.__Execute"]


def replay(spec):
    inst = spec["inst"]
    src = inst["source"]
    if spec.get("kind") == "accept":
        ref, e0 = _build(src, False)
        opt, e1 = _build(src, True)
        if (ref is None) != (opt is None):
            return dict(source=src, unoptimised=str(e0), optimised=str(e1))
        return None
    ref, opt = _fresh(src)
    if ref is None or opt is None:
        return None
    return diffcheck.concrete_pair(parse(src), inst["fname"], ref, opt, spec.get("inputs", {}), label=("unoptimised", "optimised"))


def run(tier, seed, only=None):
    chk = core.Check(PID, "translation_validation", tier, seed,
                     rule="one program per instance, compiled twice (optimize off / on); arguments and globals symbolic. Distinct = distinct source text; non-trivial = both "
                          "builds accepted, >= 1 joint path reached the comparison and its query was discharged")
    items = family(tier, seed)
    if only:
        items = [i for i in items if only in i.name or only in i.tags]
    famcheck.describe(chk, items, tier)
    chk.assumptions = ["z3 Int/Real model of Python int/float (rounding abstracted)", "the unoptimised build is the reference (no source-level oracle)"]
    chk.bounds.update({"family": "F2 (%d optimisation-context templates) + F1 core set + F3 templates + F4 (quick: sampled swizzles) + random F1/F3 programs" % len(f2.all_templates()),
                       "outside": "programs outside the families; rounding"})
    results = core.run_pool("vlib.harness.C02", "run_instance", [famcheck.pack(i) for i in items])
    famcheck.dedupe(results)
    chk.absorb_all(results)
    return chk.finish()
