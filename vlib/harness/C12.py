"""C12 -- no two visible variables share a name; references bind lexically.

Harness A (one step, solver over names): names are elements of an unbounded integer-coded
domain (SymName: every instance hashes alike, equality forks through the engine).  The
incoming context is a chain of 1-3 name tables holding pairwise distinct names; the real
ValidateVariableNamesVisitor method of each scope-forming node kind runs on stub children
that declare names and probe visibility.  Obligations: a declaration of q is rejected iff q
is visible; children see exactly chain + names declared so far in the node; sibling
branches do not see each other's declarations; the incoming chain is unchanged afterwards.

Harness B (concrete gate + replay channel): block structures x declaration positions x names
through Compiler().Compile against the lexical-visibility rule.
"""
import io
import itertools
import contextlib
import z3
from .. import symx, core, unit
from ..symx import SymName

PID = "C12"

SHAPES = [(0,), (1,), (2,), (1, 1), (0, 2), (2, 1), (1, 0, 1), (1, 1, 1)]
KINDS = ["declaration", "compound", "for", "while", "do", "if-siblings", "if-then-else-visibility", "function", "struct",
         "compound-siblings", "if-chain-siblings"]


def _classes():
    from nsl import ast

    class StubDecl(ast.Statement):
        def __init__(self, name):
            super().__init__()
            self.name = name
            self.raised = None

    class StubProbe(ast.Statement):
        def __init__(self, names):
            super().__init__()
            self.names = names
            self.seen = None

    return StubDecl, StubProbe


def _step(inst):
    from nsl import ast, types, Errors
    from nsl.passes.ValidateVariableNames import ValidateVariableNamesVisitor as V
    kind = inst["kind"]
    shape = tuple(inst["shape"])
    StubDecl, StubProbe = _classes()
    chain_z = [[z3.Int(f"n{t}_{i}") for i in range(k)] for t, k in enumerate(shape)]
    flat = [x for tbl in chain_z for x in tbl]
    q = z3.Int("q")
    r = z3.Int("r")
    w = z3.Int("w")
    pre = z3.Distinct(*flat) if len(flat) > 1 else z3.BoolVal(True)
    loc = ast.Location((0, 1))

    class Probe(V):
        def v_StubDecl(self, n, ctx):
            try:
                ctx.Add(n.name, loc)
                n.raised = False
            except Errors.CompileException:
                n.raised = True
                raise

        def v_StubProbe(self, n, ctx):
            n.seen = [ctx.Get(x) is not None for x in n.names]

    def chain():
        ctx = None
        for tbl in chain_z:
            ctx = V.Context(ctx)
            for x in tbl:
                ctx.Add(SymName(x), loc)
        return ctx

    def names():
        return [SymName(x) for x in flat] + [SymName(q, "q"), SymName(w, "w")]

    lit = lambda: ast.LiteralExpression(1, types.Integer())  # noqa: E731

    def fn():
        ctx = chain()
        v = Probe()
        v.SetErrorHandler(Errors.ErrorHandler())
        out = {}
        raised = False
        Q, R = SymName(q, "q"), SymName(r, "r")
        try:
            if kind == "declaration":
                v.v_Visit(ast.VariableDeclaration(types.Integer(), Q), ctx)
            elif kind == "compound":
                p1, d, p2 = StubProbe(names()), StubDecl(Q), StubProbe(names())
                out["probes"] = [p1, p2]
                out["decls"] = [d]
                v.v_Visit(ast.CompoundStatement([p1, d, p2]), ctx)
            elif kind == "compound-siblings":
                d1, d2 = StubDecl(Q), StubDecl(Q)
                out["decls"] = [d1, d2]
                v.v_Visit(ast.CompoundStatement([ast.CompoundStatement([d1]), ast.CompoundStatement([d2])]), ctx)
            elif kind == "for":
                p = StubProbe(names())
                out["probes"] = [p]
                v.v_Visit(ast.ForStatement(ast.VariableDeclaration(types.Integer(), Q, lit()), lit(), ast.EmptyExpression(), p), ctx)
            elif kind in ("while", "do"):
                d, p = StubDecl(Q), StubProbe(names())
                out["probes"] = [p]
                out["decls"] = [d]
                body = ast.CompoundStatement([d, p])
                v.v_Visit(ast.WhileStatement(lit(), body) if kind == "while" else ast.DoStatement(lit(), body), ctx)
            elif kind == "if-siblings":
                d1, d2 = StubDecl(Q), StubDecl(Q)
                out["decls"] = [d1, d2]
                v.v_Visit(ast.IfStatement(lit(), d1, d2), ctx)
            elif kind == "if-chain-siblings":
                # if (..) decl; else if (..) decl; else decl;   three disjoint sibling scopes (after r5-C12-1)
                d1, d2, d3 = StubDecl(Q), StubDecl(Q), StubDecl(Q)
                out["decls"] = [d1, d2, d3]
                v.v_Visit(ast.IfStatement(lit(), d1, ast.IfStatement(lit(), d2, d3)), ctx)
            elif kind == "if-chain-visibility":
                d1, p1, p2 = StubDecl(Q), StubProbe(names()), StubProbe(names())
                out["decls"] = [d1]
                out["probes"] = [p1, p2]
                v.v_Visit(ast.IfStatement(lit(), d1, ast.IfStatement(lit(), p1, p2)), ctx)
            elif kind == "if-then-else-visibility":
                d1, p = StubDecl(Q), StubProbe(names())
                out["decls"] = [d1]
                out["probes"] = [p]
                v.v_Visit(ast.IfStatement(lit(), d1, p), ctx)
            elif kind == "function":
                p = StubProbe(names())
                out["probes"] = [p]
                arg = ast.Argument(types.Integer(), Q)
                arg.SetLocation(loc)
                f = ast.Function("f", [arg], types.Integer(), ast.CompoundStatement([p]))
                v.v_Visit(f, ctx)
            elif kind == "struct":
                sd = ast.StructureDefinition("S", [ast.VariableDeclaration(types.Integer(), "fq"), ast.VariableDeclaration(types.Integer(), "fr")])
                # field names are replaced by symbolic names after the constructor's own uniqueness check
                for fld, nm in zip(sd.GetFields(), (Q, R)):
                    fld._VariableDeclaration__symbol = nm
                v.v_Visit(sd, ctx)
        except Errors.CompileException:
            raised = True
        rejected = raised or not v.valid
        after = [ctx.Get(x) is not None for x in names()]
        return dict(rejected=rejected,
                    probes=[p.seen for p in out.get("probes", [])],
                    decls=[d.raised for d in out.get("decls", [])],
                    after=after)

    def in_chain(x):
        return z3.Or(*[x == y for y in flat]) if flat else z3.BoolVal(False)

    def vis_list(extra):
        """expected visibility of names() given the extra visible names"""
        allv = flat + [q, w]
        return [z3.Or(in_chain(x), *[x == e for e in extra]) if extra else in_chain(x) for x in allv]

    def eq_list(seen, want):
        if seen is None:
            return [z3.BoolVal(False)]
        return [z3.BoolVal(s) == wv for s, wv in zip(seen, want)]

    def good(val):
        c = []
        rej = z3.BoolVal(val["rejected"])
        unchanged = eq_list(val["after"], vis_list([]))
        if kind == "declaration":
            c.append(rej == in_chain(q))
            # not rejected: q now visible in the innermost table, everything else unchanged
            c += eq_list(val["after"], vis_list([q])) if not val["rejected"] else unchanged
            return z3.And(*c)
        if kind in ("compound", "while", "do"):
            c.append(rej == in_chain(q))
            if not val["rejected"]:
                probes = val["probes"]
                if kind == "compound":
                    c += eq_list(probes[0], vis_list([]))
                    c += eq_list(probes[1], vis_list([q]))
                else:
                    c += eq_list(probes[0], vis_list([q]))
            c += unchanged
            return z3.And(*c)
        if kind == "for":
            c.append(rej == in_chain(q))
            if not val["rejected"]:
                c += eq_list(val["probes"][0], vis_list([q]))
            c += unchanged
            return z3.And(*c)
        if kind == "if-chain-visibility":
            c.append(rej == in_chain(q))
            if not val["rejected"]:
                c += eq_list(val["probes"][0], vis_list([]))   # neither later branch sees the first branch's q
                c += eq_list(val["probes"][1], vis_list([]))
            c += unchanged
            return z3.And(*c)
        if kind in ("if-siblings", "compound-siblings", "if-chain-siblings"):
            c.append(rej == in_chain(q))     # the two declarations live in disjoint sibling scopes
            c += unchanged
            return z3.And(*c)
        if kind == "if-then-else-visibility":
            c.append(rej == in_chain(q))
            if not val["rejected"]:
                c += eq_list(val["probes"][0], vis_list([]))   # else branch does not see the then branch's q
            c += unchanged
            return z3.And(*c)
        if kind == "function":
            # a parameter clashing with a visible (global) name: left open by the statement
            if not val["rejected"]:
                c += eq_list(val["probes"][0], vis_list([q]))
                c.append(z3.Not(in_chain(q)))
            c += unchanged
            return z3.And(*c)
        if kind == "struct":
            c.append(rej == (q == r))
            c += unchanged
            return z3.And(*c)
        raise ValueError(kind)

    def twin(val):  # wrong oracle: "rejected iff q equals the FIRST chain name only"
        if kind != "declaration" or len(flat) < 2:
            return None
        return z3.BoolVal(val["rejected"]) == (q == flat[0])

    tw = twin if (kind == "declaration" and len(flat) >= 2) else None
    return unit.decide(fn, pre, good, inst=inst, harness="C12", replay=replay, twin=tw)


# -- harness B: programs --------------------------------------------------------------------------
# skeleton as a tree: ("decl", name) | ("use", name) | ("block", [items]) | ("for", var, [items]) | ("if", [then], [else])
# | ("while", [items]) | ("do", [items]) | ("point", k)
SKELETON = [
    ("point", 0), ("decl", "a"), ("point", 1),
    ("block", [("decl", "b"), ("point", 2), ("block", [("decl", "c"), ("point", 3)]), ("point", 4)]),
    ("point", 5),
    ("for", "i", [("point", 6)]),
    ("point", 7),
    ("if", [("point", 8)], [("point", 9)]),
    ("while", [("point", 10)]),
    ("do", [("point", 11)]),
    ("point", 12),
]


def _fill(items, pt, stmt):
    out = []
    for it in items:
        if it[0] == "point":
            if it[1] == pt:
                out.append(stmt)
        elif it[0] in ("block", "while", "do"):
            out.append((it[0], _fill(it[1], pt, stmt)))
        elif it[0] == "for":
            out.append(("for", it[1], _fill(it[2], pt, stmt)))
        elif it[0] == "if":
            out.append(("if", _fill(it[1], pt, stmt), _fill(it[2], pt, stmt)))
        else:
            out.append(it)
    return out


def _render_items(items):
    out = []
    for it in items:
        k = it[0]
        if k == "decl":
            out.append(f"int {it[1]} = 1;")
        elif k == "use":
            out.append(f"p = p + {it[1]};")
        elif k == "block":
            out.append("{ " + _render_items(it[1]) + " }")
        elif k == "for":
            out.append(f"for (int {it[1]} = 0; {it[1]} < p; ++{it[1]}) {{ " + _render_items(it[2]) + " }")
        elif k == "if":
            out.append("if (p > 0) { " + _render_items(it[1]) + " } else { " + _render_items(it[2]) + " }")
        elif k == "while":
            out.append("while (p < 0) { " + _render_items(it[1]) + " }")
        elif k == "do":
            out.append("do { " + _render_items(it[1]) + " } while (p < 0)")
    return " ".join(out)


def _legal_items(items, chain):
    """O4: lexical visibility.  chain = list of sets (innermost last)."""
    scope = set()
    chain = chain + [scope]

    def visible(n):
        return any(n in s for s in chain)
    for it in items:
        k = it[0]
        if k == "decl":
            if visible(it[1]):
                return False
            scope.add(it[1])
        elif k == "use":
            if not visible(it[1]):
                return False
        elif k in ("block", "while", "do"):
            if not _legal_items(it[1], chain):
                return False
        elif k == "for":
            if visible(it[1]):
                return False
            if not _legal_items(it[2], chain + [{it[1]}]):
                return False
        elif k == "if":
            if not _legal_items(it[1], chain) or not _legal_items(it[2], chain):
                return False
    return True


def gen_programs(tier):
    """(source, expected accept, label)."""
    progs = []
    names = ["g", "p", "a", "b", "c", "i", "z"]   # global, parameter, locals at three depths, loop variable, fresh
    for pt in range(13):
        for n in names:
            for what in ("decl", "use"):
                items = _fill(SKELETON, pt, (what, n))
                fn = "export function f(int p) -> int { " + _render_items(items) + " return a; }"
                expect = _legal_items(items, [{"g"}, {"p"}])
                progs.append(("int g;\n" + fn, expect, f"{what} {n} at P{pt}"))
                # the globals of a module are visible in all of its functions wherever they stand in the file: the same program with the
                # global below the function, and between two functions that use the same local names
                progs.append((fn + "\nint g;", expect, f"{what} {n} at P{pt}, global declared below the function"))
                # names of one function's parameters and locals mean nothing in another function, whichever comes first
                if (pt + len(n)) % 2 == 0:
                    params = "export function h(int a, int b, int c, int i, int z) -> int { return a + b + c + i + z; }"
                    progs.append((params + "\nint g;\n" + fn, expect, f"{what} {n} at P{pt}, after a function whose parameters have the names of this one's locals"))
                    progs.append(("int g;\n" + fn + "\n" + params, expect, f"{what} {n} at P{pt}, before a function whose parameters have the names of this one's locals"))
                if (pt + len(n)) % 3 == 0:
                    other = "export function h(int p) -> int { int a = p; { int b = a; p = b; } return p; }"
                    progs.append((other + "\nint g;\n" + fn, expect, f"{what} {n} at P{pt}, global between two functions"))
                    progs.append((fn + "\nint g;\n" + other, expect, f"{what} {n} at P{pt}, global between two functions, function first"))
    progs.append(("export function f(int p) -> int { { int x = 1; } { int x = 2; } return p; }", True, "sibling blocks"))
    progs.append(("export function f(int p) -> int { if (p > 0) { int x = 1; } else { int x = 2; } return p; }", True, "if/else blocks"))
    progs.append(("export function f(int p) -> int { if (p > 0) int x = 1; else int x = 2; return p; }", True, "if/else unbraced declarations"))
    progs.append(("export function f(int p) -> int { if (p > 0) int x = 1; else p = x; return p; }", False, "else branch uses the then branch's variable"))
    progs.append(("export function f(int p) -> int { if (p > 0) int x = 1; return x; }", False, "use after if"))
    progs.append(("export function f(int p) -> int { for (int i = 0; i < p; ++i) { } for (int i = 0; i < p; ++i) { } return p; }", True, "two for loops"))
    progs.append(("export function f(int p) -> int { for (int i = 0; i < p; ++i) { int i = 2; } return p; }", False, "loop variable redeclared in body"))
    progs.append(("export function f(int p) -> int { int x = 1; { int x = 2; } return p; }", False, "shadowing in nested block"))
    progs.append(("export function f(int p, int p) -> int { return p; }", False, "duplicate parameter"))
    progs.append(("int g; int g; export function f(int p) -> int { return p; }", False, "duplicate global"))
    progs.append(("export function f(int p) -> int { { int x = 1; } return x; }", False, "use after scope"))
    progs.append(("export function f(int p) -> int { for (int i = 0; i < p; ++i) { } return i; }", False, "loop variable used after loop"))
    progs.append(("export function f(int p) -> int { int x = 1; return p; } export function h(int q) -> int { int x = 2; return q; }", True, "two functions"))
    progs.append(("struct S { int x; int y; } export function f(int x) -> int { S s; return x; }", True, "struct field names independent"))
    # a loop's condition / increment lies outside the body block
    progs.append(("export function f(int p) -> int { do { int t = p; p = p + 1; } while (t < 3) return p; }", False, "do condition uses a body variable"))
    progs.append(("export function f(int p) -> int { do { int t = p; p = p + 1; } while (p < 3) return t; }", False, "use after do"))
    progs.append(("export function f(int p) -> int { while (t < 3) { int t = p; p = p + 1; } return p; }", False, "while condition uses a body variable"))
    progs.append(("export function f(int p) -> int { for (int i = 0; i < p; i = i + t) { int t = 1; } return p; }", False, "for increment uses a body variable"))
    progs.append(("export function f(int p) -> int { for (int i = 0; t < p; ++i) { int t = 1; } return p; }", False, "for condition uses a body variable"))
    progs.append(("export function f(int p) -> int { do { int t = p; p = p + 1; } while (p < 3) { int t = 2; p = p + t; } return p; }", True, "name reused after do"))
    progs.append(("export function f(int p) -> int { if (p > 0) { int t = 1; p = t; } else { p = t; } return p; }", False, "else block uses then block's variable"))
    progs.append(("export function f(int p) -> int { { { int t = 1; } p = t; } return p; }", False, "use after nested block"))
    progs.append(("export function f(int p) -> int { { int t = 1; { p = t; } } return p; }", True, "use in nested block"))
    progs.append(("export function f(int p) -> int { { int t = p * 2; } return t; }", False, "first block of a function leaks"))
    progs.append(("export function f(int p) -> int { { int t = p * 2; } int t = 7; return t; }", True, "redeclare after first block"))
    progs += _branch_chains()
    return progs


def _branch_chains():
    """if / else-if / else chains of 2-4 branches, every branch braced or not (after r5-C12-1: a declaration that is the unbraced true
    path of an `if` followed by an `else if` chain): each branch declares the same name (disjoint siblings: accepted), or one
    branch uses the name a strictly earlier branch declared (rejected), or the name is declared before the chain (rejected)"""
    import itertools
    out = []
    for k in (2, 3, 4):
        for last_is_else in (True, False):
            for forms in itertools.product(("braced", "bare"), repeat=k):
                for user in [None] + list(range(1, k)):
                    for outer in (False, True):
                        if outer and user is not None:
                            continue
                        parts = []
                        for j, form in enumerate(forms):
                            stmt = "p = t;" if user == j else f"int t = {j + 1};"
                            stmt = "{ " + stmt + " }" if form == "braced" else stmt
                            if j == 0:
                                head = "if (p > 5)"
                            elif j == k - 1 and last_is_else:
                                head = "else"
                            else:
                                head = f"else if (p > {5 - j})"
                            parts.append(f"{head} {stmt}")
                        src = "export function f(int p) -> int { " + ("int t = 0; " if outer else "") + " ".join(parts) + " return p; }"
                        expect = user is None and not outer
                        what = "all declare t" if expect else ("t declared before the chain" if outer else f"branch {user} uses the t of an earlier branch")
                        out.append((src, expect, f"branch chain {'/'.join(forms)}{' else' if last_is_else else ' else-if'}: {what}"))
    return out


def compile_accepts(src):
    from nsl import Compiler
    out = io.StringIO()
    try:
        with contextlib.redirect_stdout(out), contextlib.redirect_stderr(out):
            r = Compiler.Compiler().Compile(src)
        return r is not None
    except SystemExit:
        return None
    except Exception:  # noqa: BLE001
        return False


def _programs(inst):
    res = dict(paths=0, queries=0, unsat=0, sat=0, violations=[], errors=[], nontrivial=True)
    for src, expect, label in gen_programs(inst.get("tier", "quick")):
        res["paths"] += 1
        got = compile_accepts(src)
        if got is None:
            res["errors"].append(f"generated program does not parse ({label})")
        elif got != expect:
            res["violations"].append(dict(what=f"{label}: expected {'accept' if expect else 'reject'}, compiler {'accepts' if got else 'rejects'}",
                                          replay=dict(harness="C12", inst=dict(part="program"), source=src, expect=expect)))
    return res


def replay(spec):
    inst = spec["inst"]
    if "source" in inst and "fname" in inst:
        from . import famcheck
        return famcheck.replay(spec)
    if inst.get("part") == "program":
        got = compile_accepts(spec["source"])
        return None if got == spec["expect"] else dict(source=spec["source"], accepted=got)
    if inst.get("part") == "step":
        # render the model as a program: chain tables become nested blocks, names become identifiers
        inp = spec.get("inputs", {})
        shape = inst["shape"]
        ids = {}

        def ident(v):
            return ids.setdefault(v, f"v{len(ids)}")
        tables = [[ident(inp.get(f"n{t}_{i}", 1000 + 10 * t + i)) for i in range(k)] for t, k in enumerate(shape)]
        qn = ident(inp.get("q", 5000))
        rn = ident(inp.get("r", 5001))
        visible = {x for tbl in tables for x in tbl}
        kind = inst["kind"]
        node = {
            "declaration": f"int {qn} = 1;", "compound": f"{{ int {qn} = 1; }}", "compound-siblings": f"{{ {{ int {qn} = 1; }} {{ int {qn} = 2; }} }}",
            "for": f"for (int {qn} = 0; {qn} < p0; ++{qn}) {{ }}", "while": f"while (p0 < 0) {{ int {qn} = 1; }}",
            "do": f"do {{ int {qn} = 1; }} while (p0 < 0)", "if-siblings": f"if (p0 > 0) int {qn} = 1; else int {qn} = 2;",
            "if-then-else-visibility": f"if (p0 > 0) int {qn} = 1; else p0 = {qn};",
            "if-chain-siblings": f"if (p0 > 1) int {qn} = 1; else if (p0 > 0) int {qn} = 2; else int {qn} = 3;",
            "if-chain-visibility": f"if (p0 > 1) int {qn} = 1; else if (p0 > 0) p0 = 1; else p0 = {qn};",
        }.get(kind)
        if node is None:
            if kind == "struct":
                src = f"struct S {{ int {qn}; int {rn}; }} export function f(int p0) -> int {{ return p0; }}"
                want = qn != rn
                got = compile_accepts(src)
                return None if got == want else dict(source=src, expected=want, accepted=got)
            return None
        src = node
        for tbl in reversed(tables):
            src = "{ " + " ".join(f"int {x} = 0;" for x in tbl) + " " + src + " }"
        src = "export function f(int p0) -> int " + src[:-1] + " return p0; }"
        want = qn not in visible
        if kind in ("if-then-else-visibility", "if-chain-visibility"):
            want = False      # either a redeclaration, or the else branch uses a name that is not visible there
        got = compile_accepts(src)
        return None if got == want else dict(source=src, expected=want, accepted=got)
    return None


def _semantics(inst):
    from . import famcheck
    return famcheck.run_item(inst["item"], harness="C12")


def run_instance(inst):
    if inst["part"] == "semantics":
        return _semantics(inst)
    r = _step(inst) if inst["part"] == "step" else _programs(inst)
    r["sample"] = dict(inst)
    r["key"] = repr(sorted((k, str(v)) for k, v in inst.items()))
    r["funcs"] = (["nsl.passes.ValidateVariableNames.ValidateVariableNamesVisitor.Context.Add",
                   "nsl.passes.ValidateVariableNames.ValidateVariableNamesVisitor.Context.Get"] +
                  ["nsl.passes.ValidateVariableNames.ValidateVariableNamesVisitor.v_" + n for n in
                   ("Function", "CompoundStatement", "ForStatement", "DoStatement", "WhileStatement", "IfStatement",
                    "VariableDeclaration", "StructureDefinition")]) if inst["part"] == "step" else \
        ["nsl.Compiler.Compiler.Compile", "nsl.passes.ValidateVariableNames.GetPass", "nsl.passes.ComputeTypes.ComputeTypeVisitor"]
    return r


def run(tier, seed, only=None):
    chk = core.Check(PID, "model_checking", tier, seed,
                     rule="harness A: one instance per (scope-forming node kind, shape of the incoming chain of name tables); names are symbolic "
                          "elements of an unbounded domain; harness B: templates x insertion point x name (concrete). Non-trivial = a query over the "
                          "symbolic names was discharged / a program was compiled")
    chk.bounds = {"A": f"chains of 1-3 tables with 0-2 names each ({len(SHAPES)} shapes), kinds: " + ", ".join(KINDS),
                  "B": "13 insertion points x 7 names x {declaration, use} in a fixed skeleton (expected verdict from a reference scope walker) + 25 hand-listed shapes (loop conditions / increments vs body variables, uses after scopes)",
                  "semantics": "programs that reuse a name in sibling scopes (with and without initialiser, across loop iterations, of different types, in caller and callee) on the real VM with symbolic inputs against the reference interpreter",
                  "outside": "a parameter whose name equals a global (left open by the statement); the induction over tree depth is a paper argument"}
    chk.assumptions = ["names are compared only by == / hash (dict lookups): checked by running with SymName keys",
                       "stub children stand for arbitrary sub-trees"]
    shapes = SHAPES if tier == "thorough" else SHAPES[:6]
    insts = [dict(part="step", kind=k, shape=list(s)) for k in KINDS for s in shapes]
    insts.append(dict(part="programs", tier=tier))
    from ..gen import core1
    from . import famcheck
    insts += [dict(part="semantics", item=famcheck.pack(it)) for it in core1.scopes()]
    insts = [i for i in insts if only in (None, i["part"])]
    results = core.run_pool("vlib.harness.C12", "run_instance", insts, chunksize=2)
    for inst, r in zip(insts, results):
        chk.absorb(r, part=inst["part"])
    return chk.finish()
