"""C08 -- binary operators group by the declared precedence, left to right.

For every ordered pair (and, in the thorough tier, triple) of the 13 binary operators the
program `return a op1 b op2 c [op3 d];` is compiled by the real front end and run on the
real VM with symbolic operands; the reference interpreter evaluates the tree the statement
prescribes.  z3 decides per path: no operand values distinguish the two.  A concrete gate
compares the shape of the parsed tree with the prescribed tree (catches groupings that no
operand values can distinguish) and the IR listing across layouts.
"""
import io
import random
import itertools
import contextlib
import z3
from .. import core
from ..nslref import ast as A
from ..nslref import joint
from . import progcheck

PID = "C08"
OPS = ["||", "&&", "==", "!=", "<", "<=", ">", ">=", "+", "-", "*", "/", "%"]
LEVEL = {"||": 0, "&&": 1, "==": 2, "!=": 2, "<": 3, "<=": 3, ">": 3, ">=": 3, "+": 4, "-": 4, "*": 5, "/": 5, "%": 5}
NAMES = ["a", "b", "c", "d"]


def climb(items, ops):
    """prescribed tree of `i0 op0 i1 op1 i2 ...` (items are atoms / parenthesised groups): precedence levels, left to right"""
    items, ops = list(items), list(ops)

    def parse(min_level, pos):
        left = items[pos[0]]
        pos[0] += 1
        while pos[0] - 1 < len(ops) and LEVEL[ops[pos[0] - 1]] >= min_level:
            op = ops[pos[0] - 1]
            right = parse(LEVEL[op] + 1, pos)
            left = A.Bin(op, left, right, paren=False)
        return left
    return parse(0, [0])


def build_expr(ops, parens, lits=None):
    """parens: None | (i, j) -- operands i..j (inclusive) are enclosed in one pair of parentheses; lits: operand index -> literal"""
    atoms = [A.Var(n) for n in NAMES[: len(ops) + 1]]
    for i, v in (lits or {}).items():
        atoms[int(i)] = A.Lit(v, "float") if isinstance(v, float) else A.Lit(v)
    if parens is None:
        return climb(atoms, ops)
    i, j = parens
    inner = climb(atoms[i: j + 1], ops[i:j])
    inner.paren = True
    return climb(atoms[:i] + [inner] + atoms[j + 1:], ops[:i] + ops[j:])


def shape(e):
    """nested tuple describing the grouping"""
    if isinstance(e, A.Bin):
        return (e.op, shape(e.l), shape(e.r))
    return e.src()


def real_shape(node):
    from nsl import ast, op
    if isinstance(node, ast.BinaryExpression) and not isinstance(node, ast.AssignmentExpression):
        return (op.OpToStr(node.GetOperation()), real_shape(node.GetLeft()), real_shape(node.GetRight()))
    return str(node)


def make_program(inst):
    ops = inst["ops"]
    t = inst["type"]
    e = build_expr(ops, tuple(inst["parens"]) if inst.get("parens") else None, inst.get("lits"))
    params = [(t, n) for n in NAMES[: len(ops) + 1]]
    rt = t if LEVEL[shape(e)[0]] >= 4 or LEVEL[shape(e)[0]] <= 1 else "int"
    ctx = inst.get("ctx", "return")
    if ctx == "return":
        body = [A.Return(e)]
    elif ctx == "assign":
        body = [A.Decl(rt, "x"), A.ExprStmt(A.Assign(A.Var("x"), e)), A.Return(A.Var("x"))]
    elif ctx == "decl":
        body = [A.Decl(rt, "x", e), A.Return(A.Var("x"))]
    else:   # x += e  ==  x = x + (e): the right-hand side extends over the whole expression
        params = params + [(t, "x0")]
        body = [A.Decl(t, "x", A.Var("x0")), A.ExprStmt(A.Assign(A.Var("x"), e, "+=")), A.Return(A.Var("x"))]
        rt = t
    return A.Program([A.Func("f", params, rt, A.Block(body))]), e


def parse_return_expr(src):
    """shape of the expression of the first return / assignment / initialiser in f, from the real parser"""
    from nsl import parser, ast
    with contextlib.redirect_stdout(io.StringIO()), contextlib.redirect_stderr(io.StringIO()):
        tree = parser.NslParser().Parse(src)
    found = []

    def walk(n, ctx=None):
        if isinstance(n, ast.ReturnStatement) and isinstance(n.GetExpression(), ast.BinaryExpression):
            found.append(n.GetExpression())
        elif isinstance(n, ast.AssignmentExpression):
            found.append(n.GetRight())
        elif isinstance(n, ast.VariableDeclaration) and n.HasInitializerExpression() and isinstance(n.GetInitializerExpression(), ast.BinaryExpression):
            found.append(n.GetInitializerExpression())
        n.ForEachChild(walk)
    walk(tree)
    return real_shape(found[0]) if found else None


def listing(src):
    from nsl import LinearIR
    r = joint.compile_source(src)
    out = io.StringIO()
    pr = LinearIR.InstructionPrinter(printFunction=lambda *a, end="\n": print(*a, end=end, file=out))
    for f in r.IRModule.Functions.values():
        pr.Print(f)
    return out.getvalue()


LAYOUTS = {"nospace": lambda toks: "".join(toks), "newline-before": lambda toks: "\n".join(toks),
           "tabs": lambda toks: "\t".join(toks), "wide": lambda toks: "   ".join(toks)}


# ------------------------------------------------------------------ Float64 part
# Pairs of one precedence level whose two groupings are the same function over the reals (+ +, + -, * *, * /) can only be told apart
# by rounding.  z3's floating-point theory finds binary64 operands (variables and literal constants) for which the two groupings differ;
# the program is then compiled with and without optimisation and must return the value of the prescribed (left-to-right) grouping,
# computed here with Python floats (binary64, round to nearest even: what the VM computes with).
FP_OPS = {"+": (z3.fpAdd, lambda a, b: a + b), "-": (z3.fpSub, lambda a, b: a - b), "*": (z3.fpMul, lambda a, b: a * b), "/": (z3.fpDiv, lambda a, b: a / b)}


def _fp_value(model, v):
    import struct
    bits = model.eval(z3.fpToIEEEBV(v), model_completion=True).as_long()
    return struct.unpack("<d", struct.pack("<Q", bits))[0]


def _fp_source(ops, vals, lits):
    atoms = [repr(vals[i]) if i in lits else NAMES[i] for i in range(3)]
    return ("export function f(float a, float b, float c) -> float { return " + f"{atoms[0]} {ops[0]} {atoms[1]} {ops[1]} {atoms[2]}" + "; }")


def _fp_run(src, vals, optimize):
    result = joint.compile_source(src, optimize=optimize)
    r, _ = joint.vm_run(joint.link(result), "f", dict(a=vals[0], b=vals[1], c=vals[2]))
    return r


def _fp64(inst):
    ops, lits = inst["ops"], set(inst.get("lits", []))
    res = dict(paths=0, queries=0, unsat=0, sat=0, undecided=0, violations=[], known=[], errors=[], nontrivial=False, sat_replayed=0,
               sample=dict(part="fp64", ops=ops, literals=sorted(lits)), key=repr(("fp64", ops, sorted(lits))), funcs=FUNCS + ["nsl.passes.OptimizeConstantCasts", "nsl.passes.OptimizeLoadAfterStore"])
    rm = z3.RNE()
    F = z3.Float64()
    V = [z3.FP(n, F) for n in "abc"]
    f1, f2 = FP_OPS[ops[0]][0], FP_OPS[ops[1]][0]
    left = f2(rm, f1(rm, V[0], V[1]), V[2])
    right = f1(rm, V[0], f2(rm, V[1], V[2]))
    s = z3.Solver()
    s.set("timeout", inst.get("timeout_ms", 20000))
    lo, hi = z3.FPVal(2.0 ** -6, F), z3.FPVal(2.0 ** 10, F)
    for v in V:
        s.add(z3.fpIsNormal(v), z3.fpGEQ(v, lo), z3.fpLEQ(v, hi))
    s.add(z3.fpIsNormal(left), z3.fpIsNormal(right), z3.Not(z3.fpEQ(left, right)))
    import time as _t
    t0 = _t.time()
    r = s.check()
    res["solver_time"] = round(_t.time() - t0, 3)
    res["queries"] = 1
    if r != z3.sat:
        # unsat would mean the groupings cannot be told apart by rounding inside the box: nothing to observe; unknown: not decided
        res["undecided"] = 1
        res.setdefault("notes", []).append(f"no binary64 witness for `a {ops[0]} b {ops[1]} c` within the time limit ({r}); not decided")
        return res
    m = s.model()
    vals = [_fp_value(m, v) for v in V]
    want = FP_OPS[ops[1]][1](FP_OPS[ops[0]][1](vals[0], vals[1]), vals[2])
    other = FP_OPS[ops[0]][1](vals[0], FP_OPS[ops[1]][1](vals[1], vals[2]))
    if want == other:
        res["errors"].append(f"z3's binary64 model and Python floats disagree on {vals} for {ops}")
        return res
    src = _fp_source(ops, vals, lits)
    for optimize in (False, True):
        res["paths"] += 1
        try:
            got = _fp_run(src, vals, optimize)
        except joint.Rejected as ex:
            res["violations"].append(dict(what=f"well-typed program is not compiled: {ex}", replay=dict(harness="C08", inst=inst, kind="fp64", source=src, vals=vals, optimize=optimize)))
            continue
        if got != want:
            res["sat"] += 1
            res["sat_replayed"] += 1
            res["violations"].append(dict(what=f"`{src.split('return ')[1].split(';')[0]}` with a={vals[0]!r}, b={vals[1]!r}, c={vals[2]!r} (optimize={optimize}) returns {got!r}; the left-to-right grouping "
                                               f"gives {want!r}" + (f" (the other grouping gives {other!r})" if got == other else ""),
                                          replay=dict(harness="C08", inst=inst, kind="fp64", source=src, vals=vals, optimize=optimize)))
        else:
            res["unsat"] += 1          # the witness is decided in favour of the prescribed grouping for this build
            res["nontrivial"] = True
    return res


def run_instance(inst):
    if inst.get("part") == "fp64":
        return _fp64(inst)
    prog, e = make_program(inst)
    fname = "f"
    is_int = inst["type"] == "int"

    def extra_pre(args, gvals):
        cs = []
        for v in args.values():
            lo, hi = (-1000, 1000)
            cs.append(z3.And(v.e >= lo, v.e <= hi))
        return cs
    res = progcheck.check_program(prog, fname, harness="C08", inst=inst, extra_pre=extra_pre, max_paths=400)
    src = res["source"]
    res["sample"] = dict(ops=inst["ops"], type=inst["type"], parens=inst.get("parens"), ctx=inst.get("ctx", "return"),
                         expr=e.src(), prescribed=repr(shape(e)), paths=res["paths"])
    res["key"] = repr(sorted((k, str(v)) for k, v in inst.items()))
    res["funcs"] = FUNCS
    # concrete gate 1: shape of the parsed tree
    if not any(v.get("rejected") for v in res["violations"]):
        try:
            got = parse_return_expr(src)
            if got is not None and got != shape(e) and not res["violations"]:
                res["violations"].append(dict(what=f"parsed tree {got} differs from the prescribed grouping {shape(e)} for `{e.src()}` "
                                                   f"(no operand values distinguish them on the VM)",
                                              replay=dict(harness="C08", inst=inst, kind="shape")))
        except SystemExit:
            res["errors"].append("generated program does not parse")
    # concrete gate 2: layouts give the same IR listing
    if inst.get("layouts") and not res["violations"]:
        try:
            base = listing(src)
            toks = e.src().split(" ")
            for name, lay in LAYOUTS.items():
                alt = src.replace(e.src(), lay(toks))
                try:
                    if listing(alt) != base:
                        res["violations"].append(dict(what=f"layout '{name}' of `{e.src()}` compiles to a different IR listing",
                                                      replay=dict(harness="C08", inst=inst, kind="layout", layout=name)))
                except joint.Rejected as ex:
                    res["violations"].append(dict(what=f"layout '{name}' of `{e.src()}` is rejected: {ex}",
                                                  replay=dict(harness="C08", inst=inst, kind="layout", layout=name)))
        except joint.Rejected:
            pass
    return res


FUNCS = ["nsl.parser.NslParser.Parse", "nsl.parser.NslParser.p_binary_expression", "nsl.lexer.NslLexer", "nsl.op.StrToOp",
         "nsl.passes.ComputeTypes", "nsl.passes.AddImplicitCasts", "nsl.passes.LowerToIR.LowerToIRVisitor.v_BinaryExpression",
         "nsl.VM.ExecutionContext.__Execute"]


def replay(spec):
    inst = spec["inst"]
    if spec.get("kind") == "fp64":
        ops, vals = inst["ops"], spec["vals"]
        want = FP_OPS[ops[1]][1](FP_OPS[ops[0]][1](vals[0], vals[1]), vals[2])
        try:
            got = _fp_run(spec["source"], vals, spec["optimize"])
        except joint.Rejected as ex:
            return dict(source=spec["source"], rejected=str(ex))
        return None if got == want else dict(source=spec["source"], args=vals, optimize=spec["optimize"], returned=got, left_to_right=want)
    prog, e = make_program(inst)
    kind = spec.get("kind", "values")
    if kind == "values":
        return progcheck.replay_values(prog, "f", spec.get("inputs", {}))
    if kind == "rejected":
        try:
            joint.compile_source(prog.src())
            return None
        except joint.Rejected as ex:
            return dict(source=prog.src(), rejected=str(ex))
    if kind == "shape":
        got = parse_return_expr(prog.src())
        return None if got == shape(e) else dict(source=prog.src(), parsed=got, prescribed=shape(e))
    if kind == "layout":
        src = prog.src()
        alt = src.replace(e.src(), LAYOUTS[spec["layout"]](e.src().split(" ")))
        try:
            return None if listing(alt) == listing(src) else dict(source=alt, problem="different IR listing")
        except joint.Rejected as ex:
            return dict(source=alt, rejected=str(ex))
    return None


def valid(ops, t):
    if t == "float" and "%" in ops:
        return False       # float % is outside the reference semantics
    return True


def instances(tier, seed):
    rnd = random.Random(seed)
    out = []
    for t in ("int", "float"):
        for pair in itertools.product(OPS, repeat=2):
            if not valid(pair, t):
                continue
            for parens in (None, (0, 1), (1, 2)):
                out.append(dict(ops=list(pair), type=t, parens=list(parens) if parens else None, layouts=(parens is None and t == "int")))
            for ctx in ("assign", "decl", "pluseq"):
                out.append(dict(ops=list(pair), type=t, parens=None, ctx=ctx))
            if t == "int":
                # literal operands: a sign-like operator directly before a number must still be the binary operator in every layout
                for lits in ({"1": 2}, {"2": 3}, {"0": 5, "2": 2}, {"1": 3, "2": 7}):
                    out.append(dict(ops=list(pair), type=t, parens=None, lits=lits, layouts=True))
                # signed constants as operands (`a / -2 * b`): the sign belongs to the constant, the grouping of the operators is unchanged
                for lits in ({"1": -2}, {"2": -3}, {"0": -5}, {"1": -3, "2": -7}):
                    if "%" in pair:
                        continue            # the reference semantics define % on non-negative operands only
                    out.append(dict(ops=list(pair), type=t, parens=None, lits=lits))
    # Float64: pairs of one level whose groupings agree over the reals, operands variables or literal constants
    fp_pairs = [("+", "+"), ("+", "-")] + ([("*", "*"), ("*", "/")] if tier == "thorough" else [])
    for pair in fp_pairs:
        for lits in ([], [1, 2], [0, 2], [0, 1], [2], [1]):
            out.append(dict(part="fp64", ops=list(pair), type="float", lits=lits, timeout_ms=20000 if tier == "quick" else 90000))
    triples = [tr for tr in itertools.product(OPS, repeat=3)]
    if tier == "quick":
        triples = rnd.sample(triples, 260)
    for tr in triples:
        for t in (("int", "float") if tier == "thorough" else ("int",)):
            if not valid(tr, t):
                continue
            out.append(dict(ops=list(tr), type=t, parens=None))
            if tier == "thorough":
                for parens in ((0, 1), (1, 2), (2, 3), (0, 2), (1, 3)):
                    out.append(dict(ops=list(tr), type=t, parens=list(parens)))
    return out


def run(tier, seed, only=None):
    chk = core.Check(PID, "translation_validation", tier, seed,
                     rule="one program per (operator tuple, operand type, parenthesisation, context); operands symbolic. Distinct = distinct "
                          "(tuple, type, parens, context); non-trivial = the program compiled, at least one joint path reached the comparison and its "
                          "query over the operands was discharged")
    chk.bounds = {"pairs": "all 169 ordered pairs x {int,float} x {no parens, left, right} + contexts x = / T x = / x +=",
                  "triples": "260 sampled by VERIF_SEED (quick, int) / all 2197 x {int,float} x 6 parenthesisations (thorough)",
                  "operands": "ints in [-1000, 1000] (products stay inside 32 bits), floats as reals; reference assumes divisor != 0, % operands >= 0",
                  "layouts": "no spaces / newlines / tabs / wide, for the int pairs without parentheses (IR listing must be identical)",
                  "float64": "+ + and + - (quick), also * * and * / (thorough): binary64 operands in [2^-6, 2^10] found by z3 (QF_FP) on which the two groupings differ, as variables and as literal constants, both optimisation levels",
                  "outside": "float % ; rounding outside the Float64 part (floats are reals elsewhere)"}
    chk.assumptions = ["z3 Int/Real model of Python int/float (rounding abstracted)", "reference interpreter vlib/nslref/interp.py"]
    chk.shims = ["nsl.VM.float", "nsl.VM.int"]
    insts = instances(tier, seed)
    results = core.run_pool("vlib.harness.C08", "run_instance", insts)
    dedupe(results)
    for inst, r in zip(insts, results):
        chk.absorb(r)
    return chk.finish()


def dedupe(results, limit=6):
    """keep one violation per (kind of discrepancy) so that one defect does not produce thousands of lines"""
    seen = {}
    for r in results:
        keep = []
        for v in r.get("violations", []):
            k = v["what"].split(";")[0][:60]
            seen[k] = seen.get(k, 0) + 1
            if seen[k] <= limit:
                keep.append(v)
        r["violations"] = keep
    return seen
