"""C17 -- a stored IR module reloads to the same program.

Each family member is compiled and written to a file by the real compiler driver (nslc.py, in
a child process) and, separately, pickled in the checker's own process; both files are loaded
with the real FilesystemModuleLoader.  Gate (concrete): the InstructionPrinter listing,
globals, imports and metadata keys of the reloaded module equal those of the module compiled
in memory.  Query (solver): the reloaded module and the in-memory module, linked and run on
the real VM on the same symbolic inputs, agree for every input (differential, per joint path).
"""
import io
import os
import sys
import pickle
import shutil
import tempfile
import subprocess
from .. import core
from ..gen import core1, f1, f2, f3, f4, f4r
from ..nslref import joint
from ..nslref.parse import parse
from . import famcheck, diffcheck

PID = "C17"
PY = "/venv/bin/python"


def listing(module):
    from nsl import LinearIR
    out = io.StringIO()
    pr = LinearIR.InstructionPrinter(printFunction=lambda *a, end="\n": print(*a, end=end, file=out))
    for name, f in module.Functions.items():
        pr.Print(f)
    return out.getvalue()


def describe(module):
    return dict(listing=listing(module), functions=list(module.Functions.keys()), globals=[(k, str(v)) for k, v in module.Globals.items()],
                imports=sorted(module.Imports), metadata_keys=sorted(module.Metadata.keys()),
                constants={name: sorted((c.Reference, str(c.Type), type(c.Value).__name__, repr(c.Value)) for c in f.Constants) for name, f in module.Functions.items()},
                blocks={name: [(b.Reference, len(b.Instructions)) for b in f.BasicBlocks] for name, f in module.Functions.items()},
                metadata_functions=sorted(str(f.GetName()) for f in module.Metadata.get("functions", [])))


def nslc(src_path, out_path, optimize, cwd):
    """run the real driver in a child process; -> (ok, text)"""
    base = [PY, os.path.join(core.REPO, "nslc.py")]
    for flag in ((["-O,--optimization-level", "1"], ["-O", "1"], ["--optimization-level", "1"]) if optimize else ([],)):
        r = subprocess.run(base + flag + [src_path, "-o", out_path], cwd=cwd, capture_output=True, text=True, timeout=120,
                           env=dict(os.environ, PYTHONPATH=core.REPO, PYTHONDONTWRITEBYTECODE="1"))
        if r.returncode != 2:          # 2 = argparse did not know the flag spelling
            break
    return r.returncode == 0 and os.path.exists(out_path) and os.path.getsize(out_path) > 0, (r.stdout + r.stderr)[-300:]


_PREVIOUS = None       # the program this worker stored (under the same file names) before the current one


def _workdir():
    """One scratch directory per worker process, reused for every instance the worker handles: consecutive programs are stored
    under the *same* file names, as a user recompiling a module does (a loader that remembers paths would return a stale module)."""
    d = os.path.join(tempfile.gettempdir(), f"verif-c17-{os.getppid()}", str(os.getpid()))
    os.makedirs(d, exist_ok=True)
    return d


GENERATIONS = {
    # programs of one family differ in single digits only, so that the stored files have the same size; the file times are set to one
    # fixed instant after every write (several writes within one tick of a coarse file-system clock)
    "constant": ["export function f(int a) -> int { return a * 2 + 1; }", "export function f(int a) -> int { return a * 3 + 5; }", "export function f(int a) -> int { return a * 2 + 1; }",
                 "export function f(int a) -> int { return a * 7 + 1; }"],
    "global and loop": ["int g;\nexport function f(int n) -> int { int s = 0; for (int i = 0; i < n; ++i) { s += i * 2; } g = s; return g + 1; }",
                        "int g;\nexport function f(int n) -> int { int s = 0; for (int i = 0; i < n; ++i) { s += i * 4; } g = s; return g + 3; }",
                        "int g;\nexport function f(int n) -> int { int s = 1; for (int i = 0; i < n; ++i) { s += i * 4; } g = s; return g + 3; }"],
    "operator": ["export function f(float a, float b) -> float { return a + b; }", "export function f(float a, float b) -> float { return a - b; }", "export function f(float a, float b) -> float { return a * b; }"],
    "callee": ["function h(int x) -> int { return x + 1; }\nexport function f(int a) -> int { return h(a) * 2; }", "function h(int x) -> int { return x + 2; }\nexport function f(int a) -> int { return h(a) * 2; }",
               "function h(int x) -> int { return x + 2; }\nexport function f(int a) -> int { return h(a) * 3; }"],
}
FIXED_TIME_NS = 1_600_000_000 * 10 ** 9


def _generations(inst, res):
    """several generations of one module stored under ONE file name and loaded after each write, in this process: what is loaded is
    what was stored last (listing, tables, and results on a few arguments)"""
    from nsl import LinearIR, VM
    srcs = GENERATIONS[inst["case"]]
    optimize = bool(inst.get("optimize"))
    tmp = tempfile.mkdtemp(prefix="verif-c17g-")
    res["sample"] = dict(case=inst["case"], optimize=optimize, generations=len(srcs))
    try:
        path = os.path.join(tmp, "gen.nslir")
        sizes = []
        for k, src in enumerate(srcs):
            res["paths"] += 1
            mem = joint.compile_source(src, optimize=optimize)
            with open(path, "wb") as f:
                pickle.dump(mem.IRModule, f)
            if inst.get("fixed_time", True):
                os.utime(path, ns=(FIXED_TIME_NS, FIXED_TIME_NS))
            sizes.append(os.path.getsize(path))
            how = ("by its name with the suffix", path) if k % 2 else ("by its name without the suffix", path[:-6])
            try:
                mod = LinearIR.FilesystemModuleLoader().Load(how[1])
                want, got = describe(mem.IRModule), describe(mod)
            except Exception as e:  # noqa: BLE001
                res["violations"].append(dict(what=f"generation {k} of '{inst['case']}' stored under the same file name cannot be loaded / listed: {type(e).__name__}: {str(e)[:100]}",
                                              replay=dict(harness="C17", inst=inst, kind="generations")))
                break
            diffs = [x for x in want if want[x] != got[x]]
            if not diffs:
                # and it runs like the module just compiled
                lk = LinearIR.Linker()
                lk.AddModule(mod)
                prog = lk.Link()
                f = parse(src).funcs[-1]
                for base in (1, 4):
                    args = {n: (base + j if t == "int" else base + j + 0.5) for j, (t, n) in enumerate(f.params)}
                    a, _ = joint.vm_run(joint.link(mem), "f", dict(args))
                    b, _ = joint.vm_run(prog, "f", dict(args))
                    if a != b:
                        diffs.append(f"f({args}) = {b} instead of {a}")
            if diffs:
                res["violations"].append(dict(what=f"generation {k} of '{inst['case']}' was stored under the file name of generation {k - 1} (same size: {len(set(sizes)) == 1}, same file time) and an earlier "
                                                   f"generation is loaded: differs in {diffs[:3]}", replay=dict(harness="C17", inst=inst, kind="generations")))
                break
        res["nontrivial"] = True
        res.setdefault("counters", {})["generations_same_size"] = int(len(set(sizes)) == 1)
    except joint.Rejected as e:
        res["errors"].append(f"generation program rejected: {e}")
    finally:
        shutil.rmtree(tmp, ignore_errors=True)
    return res


def _names(inst, res):
    """a module stored under a name of the user's choice (other suffixes, dots in the name) next to other module files: loading that name
    yields that module, whatever lies beside it"""
    from nsl import LinearIR
    A_SRC = "export function f(int a) -> int { return a * 2 + 1; }"
    B_SRC = "export function f(int a) -> int { return a * 5 - 3; }"
    tmp = tempfile.mkdtemp(prefix="verif-c17n-")
    res["sample"] = dict(kind="names", stored_as=inst["stored_as"], beside=inst["beside"])
    try:
        a = joint.compile_source(A_SRC)
        b = joint.compile_source(B_SRC)
        for name in inst["beside"]:
            with open(os.path.join(tmp, name), "wb") as f:
                pickle.dump(a.IRModule, f)
        target = os.path.join(tmp, inst["stored_as"])
        if inst.get("by") == "nslc":
            sp = os.path.join(tmp, "src.nsl")
            open(sp, "w").write(B_SRC)
            ok, text = nslc(sp, target, False, tmp)
            if not ok:
                res["violations"].append(dict(what=f"nslc.py -o {inst['stored_as']} failed: {text}", replay=dict(harness="C17", inst=inst, kind="names")))
                return res
        else:
            with open(target, "wb") as f:
                pickle.dump(b.IRModule, f)
        res["paths"] += 1
        try:
            mod = LinearIR.FilesystemModuleLoader().Load(target)
            want, got = describe(b.IRModule), describe(mod)
        except Exception as e:  # noqa: BLE001
            res["violations"].append(dict(what=f"module stored as '{inst['stored_as']}' (beside {inst['beside']}) cannot be loaded by that name: {type(e).__name__}: {str(e)[:100]}",
                                          replay=dict(harness="C17", inst=inst, kind="names")))
            return res
        diffs = [x for x in want if want[x] != got[x]]
        if diffs:
            other = describe(a.IRModule)
            res["violations"].append(dict(what=f"loading '{inst['stored_as']}' (stored beside {inst['beside']}) yields another module: differs in {diffs}" +
                                               ("; it is the module of the neighbouring file" if all(other[x] == got[x] for x in other) else ""),
                                          replay=dict(harness="C17", inst=inst, kind="names")))
        res["nontrivial"] = True
    except joint.Rejected as e:
        res["errors"].append(f"program rejected: {e}")
    finally:
        shutil.rmtree(tmp, ignore_errors=True)
    return res


def run_instance(inst):
    from nsl import LinearIR
    if inst.get("kind") == "names":
        r = dict(paths=0, queries=0, unsat=0, sat=0, undecided=0, cut=0, violations=[], errors=[], nontrivial=False, known=[], solver_time=0.0)
        r["key"] = repr(sorted((k, str(v)) for k, v in inst.items()))
        r["funcs"] = FUNCS
        return _names(inst, r)
    if inst.get("kind") == "generations":
        r = dict(paths=0, queries=0, unsat=0, sat=0, undecided=0, cut=0, violations=[], errors=[], nontrivial=False, known=[], solver_time=0.0)
        r["key"] = repr(sorted(inst.items()))
        r["funcs"] = FUNCS
        return _generations(inst, r)
    src = inst["source"]
    optimize = bool(inst.get("optimize"))
    res = dict(paths=0, queries=0, unsat=0, sat=0, undecided=0, cut=0, violations=[], errors=[], nontrivial=False, known=[], solver_time=0.0)
    res["key"] = src + f"@O{int(optimize)}"
    res["funcs"] = FUNCS
    res["sample"] = dict(name=inst.get("name"), optimize=optimize, source=src[:300])
    try:
        mem = joint.compile_source(src, optimize=optimize)
    except joint.Rejected as e:
        res["errors"].append(f"family member rejected: {e}")
        return res
    tmp = _workdir()
    try:
        sp = os.path.join(tmp, "m.nsl")
        with open(sp, "w") as f:
            f.write(src)
        variants = []
        global _PREVIOUS
        prev, _PREVIOUS = _PREVIOUS, dict(source=src, optimize=optimize)
        if inst.get("vm", True):         # the driver in a child process for the members that also get the VM comparison; in-process pickling for all
            ok, text = nslc(sp, os.path.join(tmp, "child.nslir"), optimize, tmp)
            if not ok:
                res["violations"].append(dict(what=f"nslc.py failed to write the module of an accepted program (optimize={optimize}): {text}",
                                              replay=dict(harness="C17", inst=inst, kind="driver")))
            else:
                variants.append(("written by nslc.py in another process", os.path.join(tmp, "child.nslir")))
        try:
            with open(os.path.join(tmp, "same.nslir"), "wb") as f:
                pickle.dump(mem.IRModule, f)
            variants.append(("written in the same process", os.path.join(tmp, "same")))       # loader appends .nslir
        except Exception as e:  # noqa: BLE001
            res["violations"].append(dict(what=f"module of an accepted program cannot be serialised: {type(e).__name__}: {e}", replay=dict(harness="C17", inst=inst, kind="driver")))
        want = describe(mem.IRModule)
        prog = parse(src)
        ref_linked = joint.link(mem)
        for label, path in variants:
            try:
                mod = LinearIR.FilesystemModuleLoader().Load(path)
            except Exception as e:  # noqa: BLE001
                res["violations"].append(dict(what=f"stored module ({label}) cannot be loaded: {type(e).__name__}: {e}", replay=dict(harness="C17", inst=inst, kind="load", variant=label)))
                continue
            try:
                got = describe(mod)
            except Exception as e:  # noqa: BLE001
                res["violations"].append(dict(what=f"reloaded module ({label}) cannot be listed: {type(e).__name__}: {str(e)[:100]}", replay=dict(harness="C17", inst=inst, kind="listing", variant=label, previous=prev)))
                continue
            diffs = [k for k in want if want[k] != got[k]]
            if diffs:
                res["violations"].append(dict(what=f"reloaded module ({label}) differs from the compiled module in {diffs}" + (" (another module was stored under the same file name before)" if prev else ""),
                                              replay=dict(harness="C17", inst=inst, kind="listing", variant=label, previous=prev)))
                continue
            lk = LinearIR.Linker()
            lk.AddModule(mod)
            cand = lk.Link()
            if not inst.get("vm", True):
                res["nontrivial"] = True
                res.setdefault("counters", {}).setdefault("listing_gate_only", 0)
                res["counters"]["listing_gate_only"] += 1
                continue
            r = diffcheck.check_pair(prog, inst["fname"], ref_linked, cand, harness="C17", inst=inst, extra_pre=famcheck.make_pre(inst), label=("in-memory", "reloaded"),
                                     replay_fn=lambda vals: replay(dict(inst=inst, kind="values", inputs=vals)))
            for k in ("paths", "queries", "unsat", "sat", "undecided", "cut", "solver_time"):
                res[k] += r[k]
            res["violations"] += r["violations"]
            res["errors"] += r["errors"]
            if r["nontrivial"]:
                res["nontrivial"] = True
    finally:
        pass        # the directory is reused by the next instance of this worker; the parent removes it after the pool has finished
    return res


FUNCS = ["nslc.py (child process)", "pickle.dump(Result.IRModule)", "nsl.LinearIR.FilesystemModuleLoader.Load", "nsl.LinearIR.InstructionPrinter", "nsl.LinearIR.Linker.AddModule",
         "nsl.LinearIR.Linker.Link", "nsl.VM.VirtualMachine.Invoke", "nsl.VM.ExecutionContext.__Execute"]


def replay(spec):
    from nsl import LinearIR
    inst = spec["inst"]
    if inst.get("kind") in ("generations", "names"):
        r = run_instance(inst)
        return dict(violations=[v["what"] for v in r["violations"]][:2]) if r["violations"] else None
    src = inst["source"]
    optimize = bool(inst.get("optimize"))
    tmp = tempfile.mkdtemp(prefix="verif-c17-")
    try:
        sp = os.path.join(tmp, "m.nsl")
        kind = spec.get("kind")
        prev = spec.get("previous")
        if prev and kind in ("listing", "load"):
            # the history that exposed it: another module was stored under the same names and loaded, then this one
            try:
                pm = joint.compile_source(prev["source"], optimize=prev["optimize"])
                open(sp, "w").write(prev["source"])
                nslc(sp, os.path.join(tmp, "child.nslir"), prev["optimize"], tmp)
                with open(os.path.join(tmp, "same.nslir"), "wb") as f:
                    pickle.dump(pm.IRModule, f)
                for pth in ("child.nslir", "same"):
                    try:
                        LinearIR.FilesystemModuleLoader().Load(os.path.join(tmp, pth))
                    except Exception:  # noqa: BLE001
                        pass
            except joint.Rejected:
                pass
        open(sp, "w").write(src)
        mem = joint.compile_source(src, optimize=optimize)
        ok, text = nslc(sp, os.path.join(tmp, "child.nslir"), optimize, tmp)
        if kind == "listing" and spec.get("variant", "").startswith("written in the same"):
            with open(os.path.join(tmp, "same.nslir"), "wb") as f:
                pickle.dump(mem.IRModule, f)
            try:
                mod = LinearIR.FilesystemModuleLoader().Load(os.path.join(tmp, "same"))
            except Exception as e:  # noqa: BLE001
                return dict(load_failure=f"{type(e).__name__}: {e}")
            try:
                want, got = describe(mem.IRModule), describe(mod)
            except Exception as e:  # noqa: BLE001
                return dict(listing_failure=f"{type(e).__name__}: {e}")
            diffs = [k for k in want if want[k] != got[k]]
            return dict(differs_in=diffs) if diffs else None
        if kind == "driver":
            return None if ok else dict(driver_output=text)
        if not ok:
            return None
        try:
            mod = LinearIR.FilesystemModuleLoader().Load(os.path.join(tmp, "child.nslir"))
        except Exception as e:  # noqa: BLE001
            return dict(load_failure=f"{type(e).__name__}: {e}") if kind == "load" else None
        if kind == "load":
            return None
        try:
            want, got = describe(mem.IRModule), describe(mod)
        except Exception as e:  # noqa: BLE001
            return dict(listing_failure=f"{type(e).__name__}: {e}")
        if kind == "listing":
            diffs = [k for k in want if want[k] != got[k]]
            return dict(differs_in=diffs) if diffs else None
        lk = LinearIR.Linker()
        lk.AddModule(mod)
        return diffcheck.concrete_pair(parse(src), inst["fname"], joint.link(mem), lk.Link(), spec.get("inputs", {}), label=("in-memory", "reloaded"))
    except joint.Rejected:
        return None
    finally:
        shutil.rmtree(tmp, ignore_errors=True)


def family(tier, seed):
    """-> [(item, run the differential VM comparison?)]; every member goes through the store / reload / listing gate"""
    import random
    rnd = random.Random(f"c17/{seed}")
    base = core1.all_core() + f3.all_templates() + f2.all_templates()
    f4items = [it for it in f4.family("quick") if not any(t.startswith("trigger:") for t in it.tags)]
    if tier == "quick":
        f4items = [it for k, it in enumerate(f4items) if not ({"swizzle-read", "swizzle-write"} & it.tags) or k % 12 == 0]
        items = base + f4items + f1.generate(seed, 40, depth=3, nmax=3) + f3.random_calls(seed, 15) + f4r.generate(seed, 30)
        chosen = set(id(i) for i in rnd.sample(items, 110))
        return [(it, id(it) in chosen) for it in items]
    items = base + f4items + f1.generate(seed, 600, depth=3, nmax=3) + f3.random_calls(seed, 200) + f4r.generate(seed, 300)
    return [(it, True) for it in items]


def run(tier, seed, only=None):
    chk = core.Check(PID, "translation_validation", tier, seed,
                     rule="one (program, optimisation level) per instance: written by nslc.py in a child process and pickled in-process, both reloaded by FilesystemModuleLoader; "
                          "arguments and globals symbolic. Distinct = distinct (source, level); non-trivial = listing gate passed and >= 1 differential query discharged")
    fam = family(tier, seed)
    if only:
        fam = [(i, v) for i, v in fam if only in i.name or only in i.tags]
    items = [i for i, _ in fam]
    famcheck.describe(chk, items, tier)
    chk.assumptions = ["z3 Int/Real model of Python int/float", "the module compiled in memory with the same options is the reference"]
    chk.bounds.update({"family": "F1 core, F2, F3, F4 and random F1/F3 members x optimize off/on; every member passes the store/reload/listing gate, the differential VM comparison runs on all of them (thorough) or on 110 sampled by VERIF_SEED (quick); each worker stores consecutive modules under the same file names", "outside": "pickle's own correctness; other Python versions"})
    insts = []
    for it, vm in fam:
        for opt in (False, True):
            insts.append(famcheck.pack(it, optimize=opt, vm=vm))
    for case in GENERATIONS:
        for opt in (False, True):
            insts.append(dict(kind="generations", case=case, optimize=opt, fixed_time=True))
        insts.append(dict(kind="generations", case=case, optimize=False, fixed_time=False))
    for stored_as, beside in (("filter.v2", ["filter.nslir"]), ("filter.v2", ["filter.v1", "filter.nslir", "filter.v2.nslir"]), ("lib.opt.nslir", ["lib.nslir", "lib.opt"]), ("m.nslir", ["m", "m.v2"]),
                              ("scene.main", ["scene.nslir", "scene.aux"]), ("a.b.c", ["a.nslir", "a.b.nslir"]), ("plain", ["plain.nslir"])):
        for by in ("pickle", "nslc"):
            insts.append(dict(kind="names", stored_as=stored_as, beside=beside, by=by))
    try:
        results = core.run_pool("vlib.harness.C17", "run_instance", insts)
    finally:
        shutil.rmtree(os.path.join(tempfile.gettempdir(), f"verif-c17-{os.getpid()}"), ignore_errors=True)
    famcheck.dedupe(results)
    chk.absorb_all(results)
    return chk.finish()
