"""Joint execution of the reference interpreter (O1) and the real VM on the same inputs,
symbolically (inside one symx exploration) or concretely (replay)."""
import io
import contextlib
from fractions import Fraction
import z3
from . import ast as A
from .interp import Interp, OutOfDomain, RefError
from .. import symx
from ..symx import SymNum, SymBool


class Rejected(Exception):
    pass


def compile_source(src, optimize=False, wasm=False):
    """Public API.  -> Compiler.Result; raises Rejected(detail) when the compiler does not accept."""
    from nsl import Compiler
    out = io.StringIO()
    try:
        with contextlib.redirect_stdout(out), contextlib.redirect_stderr(out):
            r = Compiler.Compiler().Compile(src, {"optimize": optimize, "wasm": wasm})
    except SystemExit:
        raise Rejected("syntax error: " + out.getvalue().strip()[-120:])
    except Exception as e:  # noqa: BLE001
        import traceback
        tb = traceback.extract_tb(e.__traceback__)
        where = tb[-1].name if tb else "?"
        if where == "Raise" and len(tb) > 1:
            where = tb[-2].name
        ex = Rejected(f"{type(e).__name__}: {e}"[:200])
        ex.exc, ex.where, ex.file = type(e).__name__, where, (tb[-1].filename if tb else "")
        raise ex
    if r is None:
        raise Rejected("Compile returned None: " + out.getvalue().strip()[-120:])
    return r


def link(result):
    from nsl import LinearIR
    lk = LinearIR.Linker()
    lk.AddModule(result.IRModule)
    return lk.Link()


def vm_run(program, fname, args, globals_=None, read_globals=()):
    """One invocation on a fresh VM.  -> (return value, {global: value})"""
    from nsl import VM
    vm = VM.VirtualMachine(program)
    for k, v in (globals_ or {}).items():
        vm.SetGlobal(k, v)
    with contextlib.redirect_stdout(io.StringIO()):
        r = vm.Invoke(fname, **args)
    return r, {g: vm.GetGlobal(g) for g in read_globals}


def ref_run(prog, fname, args, globals_=None, quirks=()):
    it = Interp(prog, globals_, quirks=quirks)
    r = it.invoke(fname, args)
    return r, {n: c[1] for n, c in it.globals.items()}


# ------------------------------------------------------------------ comparison
def _num(x):
    return isinstance(x, (int, float, SymNum, SymBool)) and not isinstance(x, bool) or isinstance(x, bool)


def differs(a, b):
    """z3 Bool: the two values (possibly holding proxies) differ numerically / structurally."""
    if a is None or b is None:
        return z3.BoolVal(not (a is None and b is None))
    if isinstance(a, (list, tuple)) or isinstance(b, (list, tuple)):
        if not (isinstance(a, (list, tuple)) and isinstance(b, (list, tuple))) or len(a) != len(b):
            return z3.BoolVal(True)
        return z3.Or(*[differs(x, y) for x, y in zip(a, b)]) if a else z3.BoolVal(False)
    if isinstance(a, dict) or isinstance(b, dict):
        if not (isinstance(a, dict) and isinstance(b, dict)) or set(a) != set(b):
            return z3.BoolVal(True)
        return z3.Or(*[differs(a[k], b[k]) for k in a]) if a else z3.BoolVal(False)
    if not (_num(a) and _num(b)):
        return z3.BoolVal(a != b)
    sa, sb = symx.lift(a), symx.lift(b)
    if sa.isf or sb.isf:
        # floats are reals here, but sub-computations on concrete values are carried out in binary64 by the code under analysis:
        # differences within a relative 1e-9 are rounding, not behaviour (the concrete replay uses the same tolerance)
        x, y = symx.term(sa, real=True), symx.term(sb, real=True)
        d = z3.simplify(x - y, som=True)
        if z3.is_rational_value(d) and d.numerator_as_long() == 0:
            return z3.BoolVal(False)          # the two terms are the same polynomial
        tol = z3.RealVal("1/1000000000") * (1 + z3.If(x >= 0, x, -x))
        return z3.Or(d > tol, -d > tol)
    return sa.e != sb.e


def close(a, b, tol=1e-9):
    """concrete comparison used by replays"""
    if a is None or b is None:
        return a is None and b is None
    if isinstance(a, (list, tuple)) or isinstance(b, (list, tuple)):
        return isinstance(a, (list, tuple)) and isinstance(b, (list, tuple)) and len(a) == len(b) and all(close(x, y, tol) for x, y in zip(a, b))
    if isinstance(a, dict) or isinstance(b, dict):
        return isinstance(a, dict) and isinstance(b, dict) and set(a) == set(b) and all(close(a[k], b[k], tol) for k in a)
    try:
        if a == b:
            return True
        return abs(a - b) <= tol * max(1.0, abs(a), abs(b))
    except TypeError:
        return False


# ------------------------------------------------------------------ symbolic inputs
def sym_inputs(sig, prefix="", structs=()):
    """sig: list of (type, name).  -> (values dict, z3 vars list [(name, var, kind)], precondition list)"""
    vals, zvars, pre = {}, [], []
    sdefs = {s.name: s for s in structs}

    def mk(t, path):
        if t in ("int", "uint"):
            z = z3.Int(path)
            zvars.append((path, z, t))
            pre.append(z3.And(z >= (0 if t == "uint" else -2 ** 31), z <= 2 ** 31 - 1))
            return SymNum(z)
        if t == "float":
            z = z3.Real(path)
            zvars.append((path, z, "float"))
            return SymNum(z, True)
        if A.is_vec(t):
            return [mk(A.comp_of(t), f"{path}_{i}") for i in range(A.vec_n(t))]
        if A.is_mat(t):
            n = A.mat_n(t)
            return [[mk("float", f"{path}_{i}{j}") for j in range(n)] for i in range(n)]
        if A.is_arr(t):
            def build(dims, p):
                if not dims:
                    return mk(t[1], p)
                return [build(dims[1:], f"{p}_{i}") for i in range(dims[0])]
            return build(list(t[2]), path)
        if A.is_struct(t) and t[1] in sdefs:
            return {fn: mk(ft, f"{path}_{fn}") for ft, fn in sdefs[t[1]].fields}
        raise ValueError(f"no symbolic input of type {t}")
    for t, n in sig:
        vals[n] = mk(t, prefix + n)
    return vals, zvars, pre


def concrete_inputs(sig, model_vals, prefix="", structs=()):
    """rebuild concrete input values from {var name: int | 'p/q'}"""
    sdefs = {s.name: s for s in structs}
    def get(path, t):
        v = model_vals.get(path, 0)
        if t == "float":
            return float(Fraction(v)) if isinstance(v, str) else float(v)
        return int(v)

    def mk(t, path):
        if t in ("int", "uint", "float"):
            return get(path, t)
        if A.is_vec(t):
            return [mk(A.comp_of(t), f"{path}_{i}") for i in range(A.vec_n(t))]
        if A.is_mat(t):
            n = A.mat_n(t)
            return [[mk("float", f"{path}_{i}{j}") for j in range(n)] for i in range(n)]
        if A.is_arr(t):
            def build(dims, p):
                if not dims:
                    return mk(t[1], p)
                return [build(dims[1:], f"{p}_{i}") for i in range(dims[0])]
            return build(list(t[2]), path)
        if A.is_struct(t) and t[1] in sdefs:
            return {fn: mk(ft, f"{path}_{fn}") for ft, fn in sdefs[t[1]].fields}
        raise ValueError(t)
    return {n: mk(t, prefix + n) for t, n in sig}


def grid(zvars, denom=8, bound=4096):
    """constraints putting every float input on a dyadic grid where + - * are exact in binary64"""
    cs = []
    for _, z, kind in zvars:
        if kind == "float":
            cs.append(z3.And(z3.IsInt(z * denom), z >= -bound, z <= bound))
    return cs
