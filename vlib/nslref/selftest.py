"""Validation of O1: the repository's own VM tests (tests/test_vm.py) are executed against the
reference interpreter instead of the compiler + VM (their `_compile` helper is replaced by a
facade over nslref).  Every assertion those tests make must hold for O1 as well."""
import importlib.util
import os
from .parse import parse
from .interp import Interp, deep


def _writeback(host, new):
    """the repo's tests observe writes to global arrays through the host's list object"""
    if isinstance(host, list) and isinstance(new, list):
        for i in range(min(len(host), len(new))):
            if isinstance(host[i], (list, dict)):
                _writeback(host[i], new[i])
            else:
                host[i] = new[i]
    elif isinstance(host, dict) and isinstance(new, dict):
        for k in new:
            if isinstance(host.get(k), (list, dict)):
                _writeback(host[k], new[k])
            else:
                host[k] = new[k]


class RefVM:
    def __init__(self, code):
        self.prog = parse(code)
        self.it = Interp(self.prog)
        self.host = {}

    def SetGlobal(self, name, value):
        self.host[name] = value
        self.it.globals[name][1] = deep(value)

    def GetGlobal(self, name):
        return self.it.globals[name][1]

    def Invoke(self, fname, **args):
        f = [x for x in self.prog.funcs if x.name == fname and x.exported][0]
        full = {n: args.get(n) for _, n in f.params}
        r = self.it.invoke(fname, full, keep=True)
        # host-visible writes into *array* arguments (tests/test_vm.py: testAddToArrayArgument): arrays cross the host boundary by
        # reference in the repo's VM; O1 itself has value semantics, so the facade copies the callee's final array values back
        from . import ast as A
        for (t, n), v in zip(f.params, self.it.last_args or []):
            if A.is_arr(t) and isinstance(full.get(n), list):
                _writeback(full[n], v)
        for n, h in self.host.items():
            _writeback(h, self.it.globals[n][1])
        return r


def run(repo=None):
    repo = repo or os.environ.get("VERIF_REPO", "/repo")
    path = os.path.join(repo, "tests", "test_vm.py")
    spec = importlib.util.spec_from_file_location("_verif_test_vm", path)
    mod = importlib.util.module_from_spec(spec)
    spec.loader.exec_module(mod)
    mod._compile = lambda code: RefVM(code)
    ok, fails, total = 0, [], 0
    for name in sorted(dir(mod)):
        if not name.startswith("test"):
            continue
        total += 1
        try:
            getattr(mod, name)()
            ok += 1
        except BaseException as e:  # noqa: BLE001
            fails.append(f"{name}: {type(e).__name__}: {e}"[:200])
    return ok, total, fails


if __name__ == "__main__":
    print(run())
