"""O1 -- definitional big-step interpreter for NSL source semantics, written against the
property statements (C01, C03, C04, C11, C12, C15), sharing no code with /repo.

It runs on the same proxy values as the implementation, inside the same exploration,
first, so that its domain assumptions (32-bit range of every int intermediate, divisor
!= 0, index in range, % operands non-negative) constrain the implementation run.
Rules: DESIGN.md appendix B.
"""
import z3
from . import ast as A
from .. import symx
from ..symx import SymNum, SymBool

INT_MIN, INT_MAX = -2 ** 31, 2 ** 31 - 1
RANK = {"uint": 1, "int": 2, "float": 3}


class OutOfDomain(symx.Abort):
    """The concrete run left the domain the properties talk about."""

    def __init__(self, why):
        super().__init__("infeasible")
        self.reason = why


class RefError(Exception):
    """The program is outside what O1 defines (generator bug, not a verdict)."""


class _Break(Exception):
    pass


class _Continue(Exception):
    pass


class _Return(Exception):
    def __init__(self, v):
        self.v = v


def assume(cond):
    """cond: SymBool / bool"""
    if isinstance(cond, SymBool):
        eng = symx.current()
        eng.assume(cond.e)
    elif isinstance(cond, SymNum):
        symx.current().assume(cond.e != 0)
    elif not cond:
        raise OutOfDomain("domain")


def in_i32(v):
    if isinstance(v, SymNum):
        if not v.isf:
            symx.current().assume(z3.And(v.e >= INT_MIN, v.e <= INT_MAX))
    elif isinstance(v, int):
        if not (INT_MIN <= v <= INT_MAX):
            raise OutOfDomain("int range")
    return v


def wider(a, b):
    return a if RANK[a] >= RANK[b] else b


def tdiv(a, b):
    """integer division truncating toward zero (b != 0 assumed)"""
    if isinstance(a, (SymNum, SymBool)) or isinstance(b, (SymNum, SymBool)):
        x, y = symx.term(a), symx.term(b)
        # z3 Int division rounds so that the remainder is non-negative; build truncation from |x| div |y|
        ax = z3.If(x >= 0, x, -x)
        ay = z3.If(y >= 0, y, -y)
        q = ax / ay
        return SymNum(z3.If((x >= 0) == (y >= 0), q, -q))
    q = abs(a) // abs(b)
    return q if (a >= 0) == (b >= 0) else -q


def truth(v):
    """0/1 int of a comparison without forking"""
    if isinstance(v, SymBool):
        return v.as_num()
    return 1 if v else 0


def default_value(t, prog):
    if t in ("int", "uint"):
        return 0
    if t == "float":
        return 0
    if A.is_vec(t):
        return [0] * A.vec_n(t)
    if A.is_mat(t):
        n = A.mat_n(t)
        return [[0] * n for _ in range(n)]
    if A.is_arr(t):
        def build(dims):
            if not dims:
                return default_value(t[1], prog)
            return [build(dims[1:]) for _ in range(dims[0])]
        return build(list(t[2]))
    if A.is_struct(t):
        st = [s for s in prog.structs if s.name == t[1]][0]
        return {n: default_value(ft, prog) for ft, n in st.fields}
    raise RefError(f"no default value for {t}")


def deep(v):
    if isinstance(v, list):
        return [deep(x) for x in v]
    if isinstance(v, dict):
        return {k: deep(x) for k, x in v.items()}
    return v


SWZ = {"x": 0, "y": 1, "z": 2, "w": 3, "r": 0, "g": 1, "b": 2, "a": 3}


class Interp:
    def __init__(self, prog, globals_=None, quirks=(), max_steps=4000):
        self.prog = prog
        self.globals = {}
        for t, n in prog.globals:
            self.globals[n] = [t, deep(globals_[n]) if globals_ and n in globals_ else default_value(t, prog)]
        self.quirks = set(quirks)
        self.steps = 0
        self.max_steps = max_steps
        self.depth = 0

    # ------------------------------------------------------------- entry
    last_args = None

    def invoke(self, fname, args, keep=False):
        """args: dict name -> value (host call of an exported function)"""
        f = [x for x in self.prog.funcs if x.name == fname and x.exported]
        if len(f) != 1:
            raise RefError(f"no unique exported function {fname}")
        f = f[0]
        argv = [deep(args[n]) for _, n in f.params]
        if keep:
            self._keep = True
        return self._run(f, argv)

    def _run(self, f, argvals):
        self.depth += 1
        if self.depth > 40:
            raise OutOfDomain("recursion depth")
        scopes = [{n: [t, v] for (t, n), v in zip(f.params, argvals)}]
        top = self.depth == 1
        try:
            self.block(f.body, scopes)
            ret = None
        except _Return as r:
            ret = r.v
        finally:
            self.depth -= 1
            if top:
                self.last_args = [scopes[0][n][1] for _, n in f.params]
        return ret

    # ------------------------------------------------------------- names
    def cell(self, name, scopes):
        for s in reversed(scopes):
            if name in s:
                return s[name]
        if name in self.globals:
            return self.globals[name]
        raise RefError(f"unbound name {name}")

    # ------------------------------------------------------------- statements
    def tick(self):
        self.steps += 1
        if self.steps > self.max_steps:
            raise symx.Abort("cut")

    def block(self, b, scopes):
        scopes.append({})
        try:
            for s in b.stmts:
                self.stmt(s, scopes)
        finally:
            scopes.pop()

    def stmt(self, s, scopes):
        self.tick()
        if isinstance(s, A.Decl):
            self.decl(s, scopes)
        elif isinstance(s, A.ExprStmt):
            self.eval(s.e, scopes)
        elif isinstance(s, A.Block):
            self.block(s, scopes)
        elif isinstance(s, A.If):
            _, c = self.eval(s.cond, scopes)
            branch = s.then if self.nonzero(c) else s.els
            if branch is not None:
                scopes.append({})
                try:
                    self.stmt(branch, scopes)
                finally:
                    scopes.pop()
        elif isinstance(s, A.For):
            scopes.append({})
            try:
                if s.init is not None:
                    self.decl(s.init, scopes)
                while True:
                    self.tick()
                    if s.cond is not None:
                        _, c = self.eval(s.cond, scopes)
                        if not self.nonzero(c):
                            break
                    try:
                        self.stmt(s.body, scopes)
                    except _Break:
                        break
                    except _Continue:
                        pass                 # the increment still runs
                    if s.next is not None:
                        self.eval(s.next, scopes)
            finally:
                scopes.pop()
        elif isinstance(s, A.While):
            while True:
                self.tick()
                _, c = self.eval(s.cond, scopes)
                if not self.nonzero(c):
                    break
                try:
                    self.stmt(s.body, scopes)
                except _Break:
                    break
                except _Continue:
                    pass                     # re-test the condition
        elif isinstance(s, A.Do):
            while True:
                self.tick()
                try:
                    self.stmt(s.body, scopes)
                except _Break:
                    break
                except _Continue:
                    if "do-continue-skips-condition" in self.quirks:
                        continue
                _, c = self.eval(s.cond, scopes)
                if not self.nonzero(c):
                    break
        elif isinstance(s, A.Break):
            raise _Break()
        elif isinstance(s, A.Continue):
            raise _Continue()
        elif isinstance(s, A.Return):
            if s.e is None:
                raise _Return(None)
            _, v = self.eval(s.e, scopes)
            raise _Return(deep(v))
        else:
            raise RefError(f"statement {type(s).__name__}")

    def decl(self, d, scopes):
        v = default_value(d.type, self.prog)
        scopes[-1][d.name] = [d.type, v]
        if d.init is not None:
            _, iv = self.eval(d.init, scopes)
            scopes[-1][d.name][1] = deep(iv)

    def nonzero(self, v):
        if isinstance(v, (SymNum, SymBool)):
            return bool(v != 0) if isinstance(v, SymNum) else bool(v)
        return v != 0

    # ------------------------------------------------------------- expressions
    def eval(self, e, scopes):
        """-> (static type, value)"""
        if isinstance(e, A.Lit):
            return e.type, e.value
        if isinstance(e, A.Var):
            c = self.cell(e.name, scopes)
            return c[0], c[1]
        if isinstance(e, A.Bin):
            lt, lv = self.eval(e.l, scopes)
            rt, rv = self.eval(e.r, scopes)
            return self.binop(e.op, lt, lv, rt, rv)
        if isinstance(e, A.Assign):
            if e.op == "=":
                vt, v = self.eval(e.value, scopes)
            else:
                tt, tv = self.eval(e.target, scopes)
                vt, vv = self.eval(e.value, scopes)
                vt, v = self.binop(e.op[0], tt, tv, vt, vv)
            self.store(e.target, deep(v), scopes)
            tt = self.type_of(e.target, scopes)
            return tt, v
        if isinstance(e, A.Affix):
            t, old = self.eval(e.target, scopes)
            new = (old + 1) if e.op == "++" else (old - 1)
            if t == "int":
                in_i32(new)
            self.store(e.target, new, scopes)
            return t, (new if e.pre else old)
        if isinstance(e, A.Index):
            bt, bv = self.eval(e.base, scopes)
            it, iv = self.eval(e.idx, scopes)
            n = len(bv)
            assume((iv >= 0))
            assume((iv < n))
            return self.elem_type(bt), bv[iv]
        if isinstance(e, A.Member):
            bt, bv = self.eval(e.base, scopes)
            if A.is_struct(bt):
                st = [s for s in self.prog.structs if s.name == bt[1]][0]
                ft = [t for t, n in st.fields if n == e.name][0]
                return ft, bv[e.name]
            comp = A.comp_of(bt)
            src = bv if isinstance(bv, list) else [bv]
            idx = [SWZ[c] for c in e.name]
            out = [src[i] for i in idx]
            if len(out) == 1:
                return comp, out[0]
            return A.vec_t(comp, len(out)), out
        if isinstance(e, A.Construct):
            comp = A.comp_of(e.type)
            vals = []
            for a in e.args:
                at, av = self.eval(a, scopes)
                if A.is_mat(e.type):
                    vals.append([self.conv(x, A.comp_of(at), comp) for x in av])
                elif isinstance(av, list):
                    vals.extend(self.conv(x, A.comp_of(at), comp) for x in av)
                else:
                    vals.append(self.conv(av, at, comp))
            return e.type, vals
        if isinstance(e, A.Call):
            args = [self.eval(a, scopes) for a in e.args]
            f = self.resolve(e.name, [t for t, _ in args])
            argv = []
            for (pt, _), (at, av) in zip(f.params, args):
                argv.append(self.conv_value(deep(av), at, pt))
            r = self._run(f, argv)
            return f.ret, r
        raise RefError(f"expression {type(e).__name__}")

    def conv(self, v, frm, to):
        """scalar conversion between component types; only value-preserving ones are defined here"""
        if frm == to or to == "float":
            return v
        if frm == "float" and to in ("int", "uint"):
            raise RefError("float -> int narrowing is outside O1")
        return v

    def conv_value(self, v, frm, to):
        if frm == to:
            return v
        if A.is_scalar(frm) and A.is_scalar(to):
            return self.conv(v, frm, to)
        if A.is_vec(frm) and A.is_vec(to):
            return [self.conv(x, A.comp_of(frm), A.comp_of(to)) for x in v]
        return v

    def elem_type(self, t):
        if A.is_arr(t):
            return t[1] if len(t[2]) == 1 else ("arr", t[1], tuple(t[2][1:]))
        if A.is_vec(t):
            return A.comp_of(t)
        if A.is_mat(t):
            return f"float{A.mat_n(t)}"
        raise RefError(f"cannot index {t}")

    def type_of(self, e, scopes):
        if isinstance(e, A.Var):
            return self.cell(e.name, scopes)[0]
        if isinstance(e, A.Index):
            return self.elem_type(self.type_of(e.base, scopes))
        if isinstance(e, A.Member):
            bt = self.type_of(e.base, scopes)
            if A.is_struct(bt):
                st = [s for s in self.prog.structs if s.name == bt[1]][0]
                return [t for t, n in st.fields if n == e.name][0]
            return A.vec_t(A.comp_of(bt), len(e.name))
        raise RefError("not an lvalue")

    # ------------------------------------------------------------- stores (functional update = value semantics)
    def store(self, target, v, scopes):
        if isinstance(target, A.Var):
            self.cell(target.name, scopes)[1] = v
            return
        if isinstance(target, A.Index):
            bt, bv = self.eval(target.base, scopes)
            _, iv = self.eval(target.idx, scopes)
            n = len(bv)
            assume((iv >= 0))
            assume((iv < n))
            new = list(bv)
            new[iv] = v
            self.store(target.base, new, scopes)
            return
        if isinstance(target, A.Member):
            bt, bv = self.eval(target.base, scopes)
            if A.is_struct(bt):
                new = dict(bv)
                new[target.name] = v
            else:
                new = list(bv)
                vals = v if isinstance(v, list) else [v]
                for c, x in zip(target.name, vals):
                    new[SWZ[c]] = x
            self.store(target.base, new, scopes)
            return
        raise RefError("store target")

    # ------------------------------------------------------------- operators
    def scalar_op(self, op, t, a, b):
        """a, b already of common scalar type t"""
        if op == "+":
            r = a + b
        elif op == "-":
            r = a - b
        elif op == "*":
            r = a * b
        elif op == "/":
            assume((b != 0))
            if t == "float":
                r = a / b
            else:
                r = tdiv(a, b)
        elif op == "%":
            if t == "float":
                raise RefError("float % is outside O1")
            assume((a >= 0))
            assume((b > 0))
            r = a % b
        elif op in ("<", ">", "<=", ">=", "==", "!="):
            r = {"<": lambda: a < b, ">": lambda: a > b, "<=": lambda: a <= b, ">=": lambda: a >= b,
                 "==": lambda: a == b, "!=": lambda: a != b}[op]()
            return truth(r)
        elif op in ("&&", "||"):
            x, y = self._nz(a), self._nz(b)
            if isinstance(x, SymBool) or isinstance(y, SymBool):
                x = x.e if isinstance(x, SymBool) else z3.BoolVal(x)
                y = y.e if isinstance(y, SymBool) else z3.BoolVal(y)
                return truth(SymBool(z3.And(x, y) if op == "&&" else z3.Or(x, y)))
            return 1 if ((x and y) if op == "&&" else (x or y)) else 0
        else:
            raise RefError(f"operator {op}")
        if t in ("int", "uint"):
            in_i32(r)
        return r

    def _nz(self, v):
        if isinstance(v, SymNum):
            return v != 0
        if isinstance(v, SymBool):
            return v
        return v != 0

    def binop(self, op, lt, lv, rt, rv):
        cmp_ = op in ("<", ">", "<=", ">=", "==", "!=")
        if A.is_scalar(lt) and A.is_scalar(rt):
            t = wider(lt, rt)
            r = self.scalar_op(op, t, lv, rv)
            return ("int" if cmp_ else t), r
        c = wider(A.comp_of(lt), A.comp_of(rt))
        if A.is_vec(lt) and A.is_vec(rt):
            if A.vec_n(lt) != A.vec_n(rt) or op in ("*", "/"):
                raise RefError(f"{lt} {op} {rt} is not defined")
            r = [self.scalar_op(op, c, a, b) for a, b in zip(lv, rv)]
            return A.vec_t("int" if cmp_ else c, len(r)), r
        if A.is_vec(lt) and A.is_scalar(rt) and op in ("*", "/"):
            return A.vec_t(c, len(lv)), [self.scalar_op(op, c, a, rv) for a in lv]
        if A.is_scalar(lt) and A.is_vec(rt) and op == "*":
            return A.vec_t(c, len(rv)), [self.scalar_op(op, c, lv, b) for b in rv]
        if A.is_mat(lt) and A.is_scalar(rt) and op in ("*", "/"):
            return lt, [[self.scalar_op(op, c, a, rv) for a in row] for row in lv]
        if A.is_scalar(lt) and A.is_mat(rt) and op == "*":
            return rt, [[self.scalar_op(op, c, lv, b) for b in row] for row in rv]
        if A.is_mat(lt) and A.is_mat(rt):
            if lt != rt:
                raise RefError("matrix shapes differ")
            n = A.mat_n(lt)
            if op == "*":
                out = [[0] * n for _ in range(n)]
                for i in range(n):
                    for j in range(n):
                        acc = 0
                        for k in range(n):
                            acc = acc + lv[i][k] * rv[k][j]
                        out[i][j] = acc
                return lt, out
            if op in ("+", "-", "%", "&&", "||"):
                return lt, [[self.scalar_op(op, c, a, b) for a, b in zip(r1, r2)] for r1, r2 in zip(lv, rv)]
        if A.is_mat(lt) and A.is_vec(rt) and op == "*":
            n = A.mat_n(lt)
            if A.vec_n(rt) != n:
                raise RefError("matrix * vector shapes")
            out = []
            for i in range(n):
                acc = 0
                for k in range(n):
                    acc = acc + lv[i][k] * rv[k]
                out.append(acc)
            return A.vec_t(c, n), out
        raise RefError(f"{lt} {op} {rt} is not defined")

    # ------------------------------------------------------------- calls
    def resolve(self, name, argtypes):
        from .. import spec_types as O3
        cands = [f for f in self.prog.funcs if f.name == name]
        if not cands:
            raise RefError(f"unknown function {name}")
        r = O3.resolve([[to_o3(t) for t, _ in f.params] for f in cands], [to_o3(t) for t in argtypes])
        if r[0] != "ok":
            raise RefError(f"call of {name} is {r[0]}")
        return cands[r[1]]


def to_o3(t):
    if A.is_scalar(t):
        return ("scalar", t)
    if A.is_vec(t):
        return ("vector", A.comp_of(t), A.vec_n(t))
    if A.is_mat(t):
        return ("matrix", "float", A.mat_n(t), A.mat_n(t))
    if A.is_arr(t):
        return ("array", to_o3(t[1]), tuple(t[2]))
    if A.is_struct(t):
        return ("struct", t[1])
    return ("void",)
