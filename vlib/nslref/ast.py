"""Our own AST for NSL programs (not nsl.ast), with a printer that emits exactly the
concrete syntax the repo's grammar accepts.  Programs are generated in this form,
pretty-printed to source text (so lexer, parser, typing, lowering and VM of /repo are all
inside the loop) and evaluated by the reference interpreter (interp.py).

Types: "int" | "uint" | "float" | "<comp><n>" (n in 2..4) | "float3x3" | "float4x4" |
       ("arr", elem, (d0, d1, ...)) | ("struct", name) | "void"
"""

SCALARS = ("int", "uint", "float")


def is_scalar(t):
    return t in SCALARS


def is_vec(t):
    return isinstance(t, str) and t[-1] in "234" and t[:-1] in SCALARS


def is_mat(t):
    return t in ("float3x3", "float4x4")


def is_arr(t):
    return isinstance(t, tuple) and t[0] == "arr"


def is_struct(t):
    return isinstance(t, tuple) and t[0] == "struct"


def comp_of(t):
    if is_scalar(t):
        return t
    if is_vec(t):
        return t[:-1]
    if is_mat(t):
        return "float"
    raise ValueError(t)


def vec_n(t):
    return int(t[-1])


def mat_n(t):
    return int(t[5])


def vec_t(comp, n):
    return comp if n == 1 else f"{comp}{n}"


def type_src(t):
    if isinstance(t, str):
        return t
    if t[0] == "arr":
        return type_src(t[1]) + "".join(f"[{d}]" for d in t[2])
    if t[0] == "struct":
        return t[1]
    raise ValueError(t)


class Node:
    __slots__ = ()

    def __repr__(self):
        return f"<{type(self).__name__} {self.src()}>"


# ------------------------------------------------------------------ expressions
class Lit(Node):
    __slots__ = ("value", "type")

    def __init__(self, value, type_=None):
        self.value = value
        self.type = type_ or ("float" if isinstance(value, float) else "int")

    def src(self):
        if self.type == "float":
            s = repr(float(self.value))
            if "e" in s or "inf" in s or "nan" in s:
                raise ValueError("float literal not printable in plain notation")
            return s          # a negative literal is one token (the lexer folds the sign); generators write (0 - k) where an operand precedes
        return str(int(self.value))


class Var(Node):
    __slots__ = ("name",)

    def __init__(self, name):
        self.name = name

    def src(self):
        return self.name


class Bin(Node):
    """paren=True prints '(l op r)'.  paren=False prints 'l op r' and leaves the grouping to the parser."""
    __slots__ = ("op", "l", "r", "paren")

    def __init__(self, op, l, r, paren=True):
        self.op, self.l, self.r, self.paren = op, l, r, paren

    def src(self):
        s = f"{self.l.src()} {self.op} {self.r.src()}"
        return f"({s})" if self.paren else s


class Assign(Node):
    __slots__ = ("target", "value", "op")

    def __init__(self, target, value, op="="):
        self.target, self.value, self.op = target, value, op

    def src(self):
        return f"{self.target.src()} {self.op} {self.value.src()}"


class Affix(Node):
    __slots__ = ("op", "target", "pre")

    def __init__(self, op, target, pre):
        self.op, self.target, self.pre = op, target, pre

    def src(self):
        return f"{self.op}{self.target.src()}" if self.pre else f"{self.target.src()}{self.op}"


class Call(Node):
    __slots__ = ("name", "args")

    def __init__(self, name, args):
        self.name, self.args = name, list(args)

    def src(self):
        return f"{self.name}(" + ", ".join(a.src() for a in self.args) + ")"


class Index(Node):
    __slots__ = ("base", "idx")

    def __init__(self, base, idx):
        self.base, self.idx = base, idx

    def src(self):
        return f"{self.base.src()}[{self.idx.src()}]"


class Member(Node):
    __slots__ = ("base", "name")

    def __init__(self, base, name):
        self.base, self.name = base, name

    def src(self):
        return f"{self.base.src()}.{self.name}"


class Construct(Node):
    __slots__ = ("type", "args")

    def __init__(self, type_, args):
        self.type, self.args = type_, list(args)

    def src(self):
        return f"{self.type}(" + ", ".join(a.src() for a in self.args) + ")"


# ------------------------------------------------------------------ statements
class Decl(Node):
    __slots__ = ("type", "name", "init")

    def __init__(self, type_, name, init=None):
        self.type, self.name, self.init = type_, name, init

    def head(self):
        s = f"{type_src(self.type)} {self.name}"
        if self.init is not None:
            s += f" = {self.init.src()}"
        return s

    def src(self, ind=""):
        return f"{ind}{self.head()};"


class ExprStmt(Node):
    __slots__ = ("e",)

    def __init__(self, e):
        self.e = e

    def src(self, ind=""):
        return f"{ind}{self.e.src()};"


class Block(Node):
    __slots__ = ("stmts",)

    def __init__(self, stmts):
        self.stmts = list(stmts)

    def src(self, ind=""):
        if not self.stmts:
            return ind + "{ }"
        return ind + "{\n" + "\n".join(s.src(ind + "  ") for s in self.stmts) + "\n" + ind + "}"


class If(Node):
    __slots__ = ("cond", "then", "els")

    def __init__(self, cond, then, els=None):
        self.cond, self.then, self.els = cond, then, els

    def src(self, ind=""):
        s = f"{ind}if ({self.cond.src()})\n{self.then.src(ind + '  ')}"
        if self.els is not None:
            s += f"\n{ind}else\n{self.els.src(ind + '  ')}"
        return s


class For(Node):
    __slots__ = ("init", "cond", "next", "body")

    def __init__(self, init, cond, next_, body):
        self.init, self.cond, self.next, self.body = init, cond, next_, body

    def src(self, ind=""):
        i = self.init.head() if self.init is not None else ""
        c = self.cond.src() if self.cond is not None else ""
        n = self.next.src() if self.next is not None else ""
        return f"{ind}for ({i}; {c}; {n})\n{self.body.src(ind + '  ')}"


class While(Node):
    __slots__ = ("cond", "body")

    def __init__(self, cond, body):
        self.cond, self.body = cond, body

    def src(self, ind=""):
        return f"{ind}while ({self.cond.src()})\n{self.body.src(ind + '  ')}"


class Do(Node):
    __slots__ = ("body", "cond")

    def __init__(self, body, cond):
        assert isinstance(body, Block)
        self.body, self.cond = body, cond

    def src(self, ind=""):
        return f"{ind}do\n{self.body.src(ind + '  ')}\n{ind}while ({self.cond.src()})"


class Break(Node):
    __slots__ = ()

    def src(self, ind=""):
        return ind + "break;"


class Continue(Node):
    __slots__ = ()

    def src(self, ind=""):
        return ind + "continue;"


class Return(Node):
    __slots__ = ("e",)

    def __init__(self, e=None):
        self.e = e

    def src(self, ind=""):
        return f"{ind}return {self.e.src()};" if self.e is not None else f"{ind}return;"


# ------------------------------------------------------------------ program
class Func(Node):
    __slots__ = ("name", "params", "ret", "body", "exported")

    def __init__(self, name, params, ret, body, exported=True):
        self.name, self.params, self.ret, self.body, self.exported = name, list(params), ret, body, exported

    def src(self):
        ps = ", ".join(f"{type_src(t)} {n}" for t, n in self.params)
        return f"{'export ' if self.exported else ''}function {self.name}({ps}) -> {type_src(self.ret)}\n{self.body.src()}"


class Struct(Node):
    __slots__ = ("name", "fields")

    def __init__(self, name, fields):
        self.name, self.fields = name, list(fields)

    def src(self):
        return f"struct {self.name} {{ " + " ".join(f"{type_src(t)} {n};" for t, n in self.fields) + " }"


class Program(Node):
    __slots__ = ("structs", "globals", "funcs", "tags")

    def __init__(self, funcs, globals_=(), structs=(), tags=()):
        self.funcs, self.globals, self.structs = list(funcs), list(globals_), list(structs)
        self.tags = set(tags)

    def src(self):
        parts = [s.src() for s in self.structs]
        parts += [f"{type_src(t)} {n};" for t, n in self.globals]
        parts += [f.src() for f in self.funcs]
        return "\n".join(parts) + "\n"

    def func(self, name):
        return [f for f in self.funcs if f.name == name]


def walk(node):
    """all nodes of a (sub)tree, pre-order"""
    yield node
    if isinstance(node, Program):
        for f in node.funcs:
            yield from walk(f)
        return
    if isinstance(node, Func):
        yield from walk(node.body)
        return
    for slot in getattr(type(node), "__slots__", ()):
        v = getattr(node, slot)
        if isinstance(v, Node):
            yield from walk(v)
        elif isinstance(v, list):
            for x in v:
                if isinstance(x, Node):
                    yield from walk(x)
