"""Recursive-descent parser from NSL source text to our AST (nslref.ast).

Independent of nsl/parser.py: binary operators are grouped by the precedence levels the
language declares (||, &&, == !=, < <= > >=, + -, * / %), left to right.  It exists so that
the repo's own test programs can be run against the reference interpreter (validation of
O1) and so that hand-written core programs can be given as text.
"""
import re
from . import ast as A

TOKEN = re.compile(r"""
    (?P<ws>\s+) |
    (?P<float>(\d+\.\d*|\.\d+)([eE][-+]?\d+)?[fF]?|\d+[eE][-+]?\d+[fF]?) |
    (?P<hex>0[xX][0-9a-fA-F]+) |
    (?P<int>\d+) |
    (?P<id>[A-Za-z_][A-Za-z_0-9]*) |
    (?P<str>"[^"\n]*") |
    (?P<op>->|\+\+|--|\+=|-=|\*=|/=|&&|\|\||==|!=|<=|>=|[-+*/%<>=(){}\[\];,.])
""", re.X)

LEVEL = {"||": 0, "&&": 1, "==": 2, "!=": 2, "<": 3, "<=": 3, ">": 3, ">=": 3, "+": 4, "-": 4, "*": 5, "/": 5, "%": 5}
PRIMS = {"int", "uint", "float", "void", "float3x3", "float4x4", "matrix3x3", "matrix4x4"} | \
        {f"{c}{n}" for c in ("int", "uint", "float") for n in (2, 3, 4)}


class ParseError(Exception):
    pass


def tokenize(text):
    out, pos = [], 0
    while pos < len(text):
        m = TOKEN.match(text, pos)
        if not m:
            raise ParseError(f"bad character {text[pos]!r} at {pos}")
        pos = m.end()
        k = m.lastgroup
        if k != "ws":
            out.append((k, m.group(k)))
    out.append(("eof", ""))
    return out


class Parser:
    def __init__(self, text):
        self.t = tokenize(text)
        self.i = 0
        self.structs = {}

    def peek(self, k=0):
        return self.t[self.i + k]

    def next(self):
        tok = self.t[self.i]
        self.i += 1
        return tok

    def accept(self, val):
        if self.peek()[1] == val and self.peek()[0] in ("op", "id"):
            self.i += 1
            return True
        return False

    def expect(self, val):
        if not self.accept(val):
            raise ParseError(f"expected {val!r}, found {self.peek()[1]!r}")

    # -- module
    def module(self):
        funcs, globals_, structs = [], [], []
        while self.peek()[0] != "eof":
            if self.peek()[1] == "struct":
                self.next()
                name = self.next()[1]
                self.expect("{")
                fields = []
                while not self.accept("}"):
                    t = self.type()
                    n = self.next()[1]
                    self.expect(";")
                    fields.append((t, n))
                s = A.Struct(name, fields)
                structs.append(s)
                self.structs[name] = s
            elif self.peek()[1] in ("export", "function"):
                funcs.append(self.function())
            elif self.peek()[1] == "import":
                self.next()
                self.next()
                self.expect(";")
            else:
                t = self.type()
                n = self.next()[1]
                self.expect(";")
                globals_.append((t, n))
        return A.Program(funcs, globals_, structs)

    def type(self):
        name = self.next()[1]
        if name in ("matrix3x3", "matrix4x4"):
            name = "float" + name[6:]
        if name in self.structs:
            t = ("struct", name)
        elif name in PRIMS:
            t = name
        else:
            raise ParseError(f"unknown type {name}")
        dims = []
        while self.peek()[1] == "[" and self.peek(1)[0] == "int" and self.peek(2)[1] == "]":
            self.next()
            dims.append(int(self.next()[1]))
            self.next()
        return ("arr", t, tuple(dims)) if dims else t

    def function(self):
        exported = self.accept("export")
        self.expect("function")
        name = self.next()[1]
        self.expect("(")
        params = []
        while not self.accept(")"):
            t = self.type()
            n = self.next()[1]
            params.append((t, n))
            self.accept(",")
        self.expect("->")
        ret = self.type()
        return A.Func(name, params, ret, self.block(), exported)

    # -- statements
    def block(self):
        self.expect("{")
        stmts = []
        while not self.accept("}"):
            stmts.append(self.statement())
        return A.Block(stmts)

    def is_type_start(self):
        k, v = self.peek()
        return k == "id" and (v in PRIMS or v in self.structs) and not (self.peek(1)[1] == "(")

    def decl(self):
        t = self.type()
        n = self.next()[1]
        init = self.expr() if self.accept("=") else None
        return A.Decl(t, n, init)

    def statement(self):
        k, v = self.peek()
        if v == "{":
            return self.block()
        if v == "return":
            self.next()
            if self.accept(";"):
                return A.Return()
            e = self.expr()
            self.expect(";")
            return A.Return(e)
        if v == "if":
            self.next()
            self.expect("(")
            c = self.expr()
            self.expect(")")
            then = self.statement()
            els = self.statement() if self.accept("else") else None
            return A.If(c, then, els)
        if v == "for":
            self.next()
            self.expect("(")
            init = None if self.peek()[1] == ";" else self.decl()
            self.expect(";")
            cond = None if self.peek()[1] == ";" else self.expr()
            self.expect(";")
            nxt = None if self.peek()[1] == ")" else self.expr()
            self.expect(")")
            return A.For(init, cond, nxt, self.statement())
        if v == "while":
            self.next()
            self.expect("(")
            c = self.expr()
            self.expect(")")
            if self.accept(";"):
                return A.While(c, A.Block([]))
            return A.While(c, self.statement())
        if v == "do":
            self.next()
            body = self.block()
            self.expect("while")
            self.expect("(")
            c = self.expr()
            self.expect(")")
            return A.Do(body, c)
        if v == "break":
            self.next()
            self.expect(";")
            return A.Break()
        if v == "continue":
            self.next()
            self.expect(";")
            return A.Continue()
        if self.is_type_start():
            d = self.decl()
            self.expect(";")
            return d
        e = self.expr()
        self.expect(";")
        return A.ExprStmt(e)

    # -- expressions
    def expr(self):
        start = self.i
        left = self.binary(0)
        if self.peek()[1] in ("=", "+=", "-=", "*=", "/=") and isinstance(left, (A.Var, A.Index, A.Member)):
            op = self.next()[1]
            return A.Assign(left, self.expr(), op)
        return left

    def binary(self, min_level):
        left = self.unary()
        while self.peek()[0] == "op" and self.peek()[1] in LEVEL and LEVEL[self.peek()[1]] >= min_level:
            op = self.next()[1]
            right = self.binary(LEVEL[op] + 1)
            left = A.Bin(op, left, right, paren=False)
        return left

    def literal(self, sign=1):
        k, v = self.next()
        if k == "float":
            return A.Lit(sign * float(v.rstrip("fF")), "float")
        if k == "hex":
            return A.Lit(sign * int(v, 16), "int")
        if k == "int":
            return A.Lit(sign * (int(v, 8) if len(v) > 1 and v[0] == "0" else int(v)), "int")
        raise ParseError(f"literal expected, found {v!r}")

    def unary(self):
        k, v = self.peek()
        if v in ("++", "--"):
            self.next()
            return A.Affix(v, A.Var(self.next()[1]), True)
        if v in ("-", "+") and self.peek(1)[0] in ("int", "float", "hex"):
            self.next()          # a signed literal token
            return self.literal(-1 if v == "-" else 1)
        if v == "(":
            self.next()
            e = self.expr()
            self.expect(")")
            if isinstance(e, A.Bin):
                e.paren = True
            return e
        if k in ("int", "float", "hex"):
            return self.literal()
        if k != "id":
            raise ParseError(f"unexpected token {v!r}")
        self.next()
        if self.peek()[1] == "(":
            self.next()
            args = []
            while not self.accept(")"):
                args.append(self.expr())
                self.accept(",")
            node = A.Construct(v if v not in ("matrix3x3", "matrix4x4") else "float" + v[6:], args) if v in PRIMS else A.Call(v, args)
        else:
            node = A.Var(v)
        while True:
            if self.accept("["):
                idx = self.expr()
                self.expect("]")
                node = A.Index(node, idx)
            elif self.peek()[1] == "." and self.peek(1)[0] == "id":
                self.next()
                node = A.Member(node, self.next()[1])
            else:
                break
        if self.peek()[1] in ("++", "--") and isinstance(node, A.Var):
            return A.Affix(self.next()[1], node, False)
        return node


def parse(text):
    return Parser(text).module()
