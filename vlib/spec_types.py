"""O3 -- typing and overload tables written from the property statements C09 / C10,
independent of nsl/types.py.  Types are tuples:
  ("scalar", comp) | ("vector", comp, n) | ("matrix", comp, rows, cols) | ("array", elem, (extents...)) |
  ("struct", name) | ("void",)
comp in {"float", "int", "uint"}; sizes are Python ints or z3 Int terms.  Every predicate
returns a z3 Bool (z3.BoolVal for decided cases) so that it can be used in queries.
"""
import z3

RANK = {"float": 3, "int": 2, "uint": 1}
ARITH = ["+", "-", "*", "/", "%"]
CMP = ["<", ">", "<=", ">=", "==", "!="]
LOGIC = ["&&", "||"]
OPS = ARITH + CMP + LOGIC


def B(x):
    return x if z3.is_expr(x) else z3.BoolVal(bool(x))


def eqz(a, b):
    if z3.is_expr(a) or z3.is_expr(b):
        return a == b
    return z3.BoolVal(a == b)


def wider(a, b):
    return a if RANK[a] >= RANK[b] else b


def kind(t):
    return t[0]


def comp(t):
    return t[1]


def same_type(a, b):
    """structural equality as a z3 Bool"""
    if a[0] != b[0]:
        return z3.BoolVal(False)
    k = a[0]
    if k == "scalar":
        return z3.BoolVal(a[1] == b[1])
    if k == "vector":
        return z3.And(z3.BoolVal(a[1] == b[1]), eqz(a[2], b[2]))
    if k == "matrix":
        return z3.And(z3.BoolVal(a[1] == b[1]), eqz(a[2], b[2]), eqz(a[3], b[3]))
    if k == "array":
        if len(a[2]) != len(b[2]):
            return z3.BoolVal(False)
        return z3.And(same_type(a[1], b[1]), *[eqz(x, y) for x, y in zip(a[2], b[2])])
    if k == "struct":
        return z3.BoolVal(a[1] == b[1])
    return z3.BoolVal(True)


# -- C10: conversion score of an argument of type `arg` to a parameter of type `par` -----------
def convertible(arg, par):
    ka, kp = arg[0], par[0]
    if ka != kp:
        return z3.BoolVal(False)
    if ka == "scalar":
        return z3.BoolVal(True)
    if ka == "vector":
        return eqz(arg[2], par[2])
    if ka == "matrix":
        return z3.And(eqz(arg[2], par[2]), eqz(arg[3], par[3]))
    if ka == "array":
        if len(arg[2]) != len(par[2]):
            return z3.BoolVal(False)
        return z3.And(convertible(arg[1], par[1]), *[eqz(x, y) for x, y in zip(arg[2], par[2])])
    if ka == "struct":
        return z3.BoolVal(arg[1] == par[1])
    return z3.BoolVal(ka == "void")


def match_score(arg, par):
    """z3 Int term: 0 equal, 1 convertible, -1 not convertible."""
    return z3.If(same_type(arg, par), 0, z3.If(convertible(arg, par), 1, -1))


def resolve(cands, args):
    """Concrete overload resolution (sizes are ints): cands = list of parameter-type lists.
    Returns ("ok", index) | ("none",) | ("ambiguous",)."""
    scored = []
    for i, ps in enumerate(cands):
        if len(ps) != len(args):
            continue
        sc = [z3.simplify(match_score(a, p)).as_long() for a, p in zip(args, ps)]
        if any(s < 0 for s in sc):
            continue
        scored.append((sum(sc), i))
    if not scored:
        return ("none",)
    scored.sort()
    if len(scored) > 1 and scored[0][0] == scored[1][0]:
        return ("ambiguous",)
    return ("ok", scored[0][1])


# -- C09: binary operator typing ------------------------------------------------------------------
def with_comp(t, c):
    if t[0] == "scalar":
        return ("scalar", c)
    if t[0] == "vector":
        return ("vector", c, t[2])
    return ("matrix", c, t[2], t[3])


def binary_spec(op, L, R):
    """-> (accept: z3 Bool, result type, left operand type, right operand type).
    The types are meaningful under `accept`.  Matrix comparison is left undefined by the
    statement: accept is None for it (no obligation)."""
    kl, kr = L[0], R[0]
    c = wider(L[1], R[1])
    F = z3.BoolVal(False)
    T = z3.BoolVal(True)
    if kl == "scalar" and kr == "scalar":
        if op in CMP:
            return T, ("scalar", "int"), ("scalar", c), ("scalar", c)
        return T, ("scalar", c), ("scalar", c), ("scalar", c)
    if op in CMP:
        if kl == "vector" and kr == "vector":
            return eqz(L[2], R[2]), ("vector", "int", L[2]), ("vector", c, L[2]), ("vector", c, L[2])
        if kl == "matrix" and kr == "matrix":
            return None, None, None, None
        return F, None, None, None
    if op in ("+", "-", "%", "&&", "||"):
        if kl == "vector" and kr == "vector":
            return eqz(L[2], R[2]), ("vector", c, L[2]), ("vector", c, L[2]), ("vector", c, L[2])
        if kl == "matrix" and kr == "matrix":
            ok = z3.And(eqz(L[2], R[2]), eqz(L[3], R[3]))
            return ok, ("matrix", c, L[2], L[3]), ("matrix", c, L[2], L[3]), ("matrix", c, L[2], L[3])
        return F, None, None, None
    if op == "/":
        if kr == "scalar":   # left is a vector or matrix here
            return T, with_comp(L, c), with_comp(L, c), ("scalar", c)
        return F, None, None, None
    if op == "*":
        if kr == "scalar":
            return T, with_comp(L, c), with_comp(L, c), ("scalar", c)
        if kl == "scalar":
            return T, with_comp(R, c), ("scalar", c), with_comp(R, c)
        if kl == "matrix" and kr == "matrix":
            return eqz(L[3], R[2]), ("matrix", c, L[2], R[3]), with_comp(L, c), with_comp(R, c)
        if kl == "matrix" and kr == "vector":
            return eqz(L[3], R[2]), ("vector", c, L[2]), with_comp(L, c), with_comp(R, c)
        return F, None, None, None      # vector * vector, vector * matrix
    raise ValueError(op)


SPELLABLE = ([("scalar", c) for c in ("float", "int", "uint")] +
             [("vector", c, n) for c in ("float", "int", "uint") for n in (2, 3, 4)] +
             [("matrix", "float", 3, 3), ("matrix", "float", 4, 4)])


def spell(t):
    if t[0] == "scalar":
        return t[1]
    if t[0] == "vector":
        return f"{t[1]}{t[2]}"
    if t[0] == "matrix":
        return f"{t[1]}{t[2]}x{t[3]}"
    if t[0] == "void":
        return "void"
    raise ValueError(t)
