"""Namespace shims: C-level builtins that insist on exact types are shadowed by a
module-level name injected into the module under analysis, in the checker's
process only.  Nothing under /repo is touched.  Every shim is transparent for
concrete (non-proxy) arguments.  See DESIGN.md section 2.2."""
import re
import contextlib
import z3
from . import symx
from .symx import SymNum, SymBool


# -- VM -------------------------------------------------------------------------
# `int(x)` / `float(x)` must return exact builtin numbers, which a proxy cannot be: the names are shadowed in the VM module by classes
# that convert like the builtins (proxies: truncation / ToReal) and still work as types (`isinstance(v, (int, float))`, `case int():`,
# `type(v) is int` through the module's `type` shim).
class _IntShimMeta(type):
    def __call__(cls, *a, **kw):
        return symx.sym_int(*a, **kw)

    def __instancecheck__(cls, obj):
        return sym_isinstance(obj, _builtin_int)


class _FloatShimMeta(type):
    def __call__(cls, *a, **kw):
        return symx.sym_float(*a, **kw)

    def __instancecheck__(cls, obj):
        return sym_isinstance(obj, _builtin_float)


_builtin_int, _builtin_float = int, float


class IntShim(int, metaclass=_IntShimMeta):
    pass


class FloatShim(float, metaclass=_FloatShimMeta):
    pass


class _VMTypeMeta(type):
    def __instancecheck__(cls, obj):
        return _builtin_isinstance(obj, _builtin_type)

    def __call__(cls, *a, **kw):
        if len(a) == 1 and not kw:
            t = sym_type(a[0])
            # inside the VM module the names int / float denote the shim classes
            return IntShim if t is _builtin_int else FloatShim if t is _builtin_float else t
        return _builtin_type(*a, **kw)


class vm_type(metaclass=_VMTypeMeta):
    """`type` inside nsl.VM: like sym_type, but ints and floats are reported as the module's (shadowed) int / float"""


@contextlib.contextmanager
def no_vm_shims():
    """a concrete run against the unshimmed VM module"""
    from nsl import VM
    saved = {n: VM.__dict__.get(n) for n in ("int", "float", "type")}
    for n in saved:
        VM.__dict__.pop(n, None)
    try:
        yield
    finally:
        for n, v in saved.items():
            if v is not None:
                VM.__dict__[n] = v


def install_vm():
    from nsl import VM
    VM.float = FloatShim
    VM.int = IntShim
    VM.type = vm_type
    return ["nsl.VM.float -> ToReal for proxies", "nsl.VM.int -> truncation for proxies"]


_builtin_isinstance = isinstance
_PATCHED = set()


def sym_isinstance(x, t):
    """isinstance for the modules under analysis: a numeric proxy is an int (or float, or bool) like the value it stands for"""
    tx = type(x)
    if tx is SymNum:
        return _builtin_isinstance(0.0 if x.isf else 0, t)
    if tx is SymBool:
        return _builtin_isinstance(True, t)
    return _builtin_isinstance(x, t)


_builtin_type = type


class _TypeShimMeta(type):
    def __instancecheck__(cls, obj):
        return _builtin_isinstance(obj, _builtin_type)

    def __call__(cls, *a, **kw):
        if len(a) == 1 and not kw:
            x = a[0]
            tx = _builtin_type(x)
            if tx is SymNum:
                return float if x.isf else int
            if tx is SymBool:
                return bool
            return tx
        return _builtin_type(*a, **kw)


class sym_type(metaclass=_TypeShimMeta):
    """`type` for the modules under analysis: type(proxy) is the type of the value it stands for (`type(x) is int` tests)"""


def install_isinstance():
    """shadow `isinstance` in every loaded module of the package under analysis (defensive `assert isinstance(n, int)` checks would
    otherwise fail on proxies); called at the start of every exploration, cheap when nothing new was imported"""
    import sys
    for name in [n for n in sys.modules if n.startswith("nsl") and n not in _PATCHED]:
        m = sys.modules.get(name)
        if m is not None and (name == "nsl" or name.startswith("nsl.")):
            m.__dict__.setdefault("isinstance", sym_isinstance)
            m.__dict__.setdefault("type", sym_type)
        _PATCHED.add(name)


def scan_type_tests(path, names=("int", "float")):
    """Proxies are neither int nor float: an isinstance/type test on those in the
    module under analysis would be mis-modelled.  Returns offending lines."""
    hits = []
    pat = re.compile(r"isinstance\([^)]*\b(int|float)\b|type\([^)]*\)\s*(is|==)\s*(int|float)")
    for n, line in enumerate(open(path, encoding="utf-8-sig"), 1):
        code = line.split("#")[0]
        if pat.search(code):
            hits.append(f"{path}:{n}: {line.strip()}")
    return hits


# -- WebAssembly writer -----------------------------------------------------------
class Chunk:
    """A run of payload bytes of symbolic length whose content does not matter
    (the UTF-8 bytes of a name)."""

    def __init__(self, length, tag="chunk"):
        self.length = length
        self.tag = tag

    def __repr__(self):
        return f"Chunk({self.tag},{self.length})"


class ByteList(list):
    pass


def shim_bytes(xs=()):
    if isinstance(xs, (bytes, bytearray, str, int)):
        return bytes(xs)
    xs = list(xs)
    if not any(isinstance(b, (SymNum, SymBool)) for b in xs):
        return bytes(xs)
    out = ByteList()
    for b in xs:
        if isinstance(b, (SymNum, SymBool)):
            b = symx.lift(b)
            if not ((b >= 0) and (b <= 255)):
                raise ValueError("bytes must be in range(0, 256)")
        else:
            if not 0 <= b <= 255:
                raise ValueError("bytes must be in range(0, 256)")
        out.append(b)
    return out


def shim_len(x):
    if isinstance(x, ShimBuf):
        x = x.data
    if isinstance(x, Chunk):
        return x.length
    if isinstance(x, FakeStr):
        if x.nchars is None:
            raise TypeError("len() of a FakeStr is not modelled")
        return x.nchars
    if isinstance(x, list) and any(isinstance(i, Chunk) for i in x):
        n = 0
        for i in x:
            n = n + (i.length if isinstance(i, Chunk) else 1)
        return n
    return len(x)


class ShimBuf:
    """Stand-in for io.BytesIO: a Python list of byte items (int | SymNum | Chunk)."""

    def __init__(self, initial=b""):
        self.data = list(initial)

    def write(self, b):
        if isinstance(b, ShimBuf):
            b = b.data
        if isinstance(b, Chunk):
            self.data.append(b)
            return shim_len(b)
        if isinstance(b, memoryview):
            b = bytes(b)
        self.data.extend(list(b))
        return len(b)

    def getbuffer(self):
        return self.data

    def getvalue(self):
        return self.data


class _ShimIO:
    BytesIO = ShimBuf

    def __getattr__(self, name):
        import io
        return getattr(io, name)


class FakeStr:
    """A name whose UTF-8 encoding has a symbolic length."""

    def __init__(self, nbytes, tag="name", nchars=None):
        self.nbytes = nbytes
        self.nchars = nchars        # number of code points (len() of the str); 1-4 UTF-8 bytes each
        self.tag = tag

    def encode(self, encoding="utf-8", errors="strict"):
        assert encoding.lower().replace("-", "") == "utf8"
        return Chunk(self.nbytes, self.tag)


def install_wasm():
    from nsl import WebAssembly as W
    W.bytes = shim_bytes
    W.io = _ShimIO()
    W.len = shim_len
    return ["nsl.WebAssembly.bytes -> list of byte terms with the 0..255 check",
            "nsl.WebAssembly.io.BytesIO -> Python list buffer",
            "nsl.WebAssembly.len -> length term for buffers holding symbolic-length chunks"]


def uninstall_wasm():
    from nsl import WebAssembly as W
    for n in ("bytes", "io", "len"):
        if n in W.__dict__:
            if n == "io":
                import io
                W.io = io
            else:
                del W.__dict__[n]


import contextlib


@contextlib.contextmanager
def no_wasm_shims():
    """Concrete replays run against the unshimmed module."""
    from nsl import WebAssembly as W
    had = "bytes" in W.__dict__
    uninstall_wasm()
    try:
        yield
    finally:
        if had:
            install_wasm()
