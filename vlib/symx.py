"""symx -- a small dynamic symbolic executor for real CPython code objects.

Proxy values (SymNum, SymBool, SymName) stand for z3 terms.  The code under
analysis is the code in /repo, run unmodified; whenever the interpreter needs a
concrete truth value or index from a proxy the engine forks: both polarities
are checked for feasibility under the current path condition (incremental z3),
one is followed and the other queued; the harness function is re-executed once
per queued decision prefix (depth first) until no prefix is left.

Result of `Engine.explore(fn, pre)`: list of Path(pc, kind, value) with
kind in {"ok", "exc", "cut", "timeout"}.  The harness turns
pc /\\ assumptions /\\ not property(value) into one z3 query per path
(`Engine.query`).  See DESIGN.md section 2.
"""
import time
import signal
import z3

__all__ = [
    "Engine", "SymNum", "SymBool", "SymName", "Abort", "Path", "lift",
    "sym_float", "sym_int", "is_sym", "current", "set_engine", "term", "concretize",
]


class Abort(BaseException):
    """Path steering (infeasible / cut).  BaseException so that `except Exception`
    in the code under analysis cannot swallow it."""

    def __init__(self, why="cut"):
        self.why = why


class PathTimeout(BaseException):
    pass


class Path:
    __slots__ = ("pc", "kind", "value", "decisions", "assumed")

    def __init__(self, pc, kind, value, decisions, assumed):
        self.pc = pc            # list of z3 Bool (decisions and assumptions, in order)
        self.kind = kind        # ok | exc | cut | timeout
        self.value = value      # return value or exception object
        self.decisions = decisions
        self.assumed = assumed  # number of assumptions among pc

    def __repr__(self):
        return f"Path({self.kind}, {self.value!r}, |pc|={len(self.pc)})"


_ENG = None
# When True, repr()/str()/format() of an integer proxy forks over its feasible values and prints the
# concrete number (needed where the code under analysis compares objects through their repr).
REPR_CONCRETE = False
# When set, str()/format() of a proxy returns FORMAT_HOOK(proxy): a placeholder token that the harness maps
# back to the term (used where the code under analysis renders numbers into text).
FORMAT_HOOK = None


def current():
    return _ENG


def set_engine(e):
    global _ENG
    _ENG = e


def reraise_watchdog(e):
    """The path watchdog can fire while a z3 (ctypes) call is on the stack; ctypes reports it as an ArgumentError naming PathTimeout.
    Harness code that turns exceptions of the code under analysis into outcomes calls this first, so that the watchdog is never
    mistaken for a failure of the code under analysis."""
    if "PathTimeout" in f"{type(e).__name__}{e}":
        raise PathTimeout()


class Engine:
    def __init__(self, max_decisions=128, path_timeout=4.0, max_paths=4000, solver_timeout_ms=20000):
        self.solver = z3.Solver()
        self.solver.set("timeout", solver_timeout_ms)
        self._solver_timeout_ms = solver_timeout_ms
        self._pushed = False
        self.max_decisions = max_decisions
        self.path_timeout = path_timeout
        self.max_paths = max_paths
        self.nqueries = 0          # feasibility queries (exploration)
        self.nprove = 0            # property queries
        self.n_unsat = 0
        self.n_sat = 0
        self.n_unknown = 0
        self.solver_time = 0.0
        self.truncated = False
        self.ncalls = 0
        self.n_branch_unknown = 0   # branch feasibility queries answered `unknown`
        self.keep_smt2 = False
        self.last_smt2 = None
        self.soft_reasons = set()   # why the exploration is incomplete although no path / decision budget was exhausted
        self.hard_truncated = False # a path, decision or time budget was exhausted
        self.max_branch_calls = 200000
        self.deadline = None        # wall-clock limit of one exploration (time.time() value); exceeding it truncates (reported as cut)
        self._fresh = 0

    # -- variables ---------------------------------------------------------
    def fresh_int(self, name):
        self._fresh += 1
        return z3.Int(f"{name}!{self._fresh}")

    # -- solver access -------------------------------------------------------
    def check(self, *extra):
        t = time.time()
        self.nqueries += 1
        r = self.solver.check(*extra)
        self.solver_time += time.time() - t
        return r

    def _known(self, cond):
        i = cond.get_id()
        if i in self._facts:
            return self._facts[i]
        return None

    def _record(self, cond, val):
        self._facts[cond.get_id()] = val
        if z3.is_not(cond):
            self._facts[cond.arg(0).get_id()] = not val

    def branch(self, cond):
        """cond: z3 Bool -> Python bool; records the decision on the current path."""
        self.ncalls += 1
        if self.ncalls > self.max_branch_calls:
            self.hard_truncated = True
            raise Abort("cut")          # a (concretely decided) loop that does not end: bounded like any other path
        cond = z3.simplify(cond)
        if z3.is_true(cond):
            return True
        if z3.is_false(cond):
            return False
        k = self._known(cond)
        if k is not None:
            return k
        if self.pos < len(self.prefix):
            d = self.prefix[self.pos]
            self.pos += 1
            c = cond if d else z3.Not(cond)
            self.solver.add(c)
            self.pc.append(c)
            self._record(cond, d)
            return d
        if self.pos >= self.max_decisions:
            self.hard_truncated = True
            raise Abort("cut")
        rt = self.check(cond)
        rf = self.check(z3.Not(cond))
        can_t, can_f = rt == z3.sat, rf == z3.sat
        undecided = rt == z3.unknown or rf == z3.unknown
        if undecided:
            # a side whose feasibility the solver could not decide is not explored: the exploration is incomplete
            # (reported as cut by every harness through `truncated`), never silently treated as infeasible
            self.n_branch_unknown += 1
            self.truncated = True
            self.soft_reasons.add("the solver answered unknown to a branch feasibility query")
        if can_t and can_f:
            self.todo.append(self.prefix[: self.pos] + [False])
            d = True
        elif can_t:
            d = True
        elif can_f:
            d = False
        elif undecided:
            raise Abort("cut")
        else:
            raise Abort("infeasible")
        self.prefix.append(d)
        self.pos += 1
        c = cond if d else z3.Not(cond)
        self.solver.add(c)
        self.pc.append(c)
        self._record(cond, d)
        return d

    def assume(self, cond):
        """Add a domain assumption to the current path (no fork).  The path is
        abandoned as infeasible if the assumption contradicts the path condition."""
        cond = z3.simplify(cond)
        if z3.is_true(cond):
            return
        if z3.is_false(cond):
            raise Abort("infeasible")
        self.solver.add(cond)
        self.pc.append(cond)
        self.nassumed += 1
        self._record(cond, True)
        self._assume_dirty = True

    def feasible(self):
        return self.check() == z3.sat

    # -- exploration ----------------------------------------------------------
    def explore(self, fn, pre=None):
        set_engine(self)
        from . import shims
        shims.install_isinstance()
        self.todo = [[]]
        results = []
        self.conc = {}
        while self.todo:
            if len(results) >= self.max_paths or (self.deadline is not None and time.time() > self.deadline):
                self.truncated = True
                self.hard_truncated = True
                break
            self.prefix = self.todo.pop()
            self.ncalls = 0
            self.pos = 0
            self.pc = []
            self.nassumed = 0
            self._facts = {}
            self._assume_dirty = False
            self.solver.push()
            self._pushed = True
            if pre is not None:
                self.solver.add(pre)
            old = None
            try:
                if self.path_timeout:
                    def _alarm(signum, frame):
                        raise PathTimeout()
                    old = signal.signal(signal.SIGALRM, _alarm)
                    # repeating: an exception raised by the handler inside a ctypes callback of z3 is swallowed there, so fire again until it gets through
                    signal.setitimer(signal.ITIMER_REAL, self.path_timeout, 0.5)
                try:
                    out = ("ok", fn())
                except Abort as a:
                    out = (a.why, None)
                except PathTimeout:
                    out = ("timeout", None)
                except Exception as e:  # noqa: BLE001 -- outcome of the code under analysis
                    # the watchdog can fire inside a z3 (ctypes) call, which reports it as an ArgumentError naming PathTimeout
                    out = ("timeout", None) if "PathTimeout" in f"{type(e).__name__}{e}" else ("exc", e)
                finally:
                    if self.path_timeout:
                        signal.setitimer(signal.ITIMER_REAL, 0)
                        signal.signal(signal.SIGALRM, old)
                dead = out[0] == "infeasible"
                if out[0] == "timeout":
                    # the solver may have been interrupted in the middle of a call: start from a fresh one
                    self._fresh_solver()
                elif not dead and self._assume_dirty and self.check() == z3.unsat:
                    dead = True  # an assumption contradicted the path after its last decision (`unknown` keeps the path: its property query decides)
                if not dead:
                    results.append(Path(list(self.pc), out[0], out[1], list(self.prefix[: self.pos]), self.nassumed))
            finally:
                try:
                    if self._pushed:
                        self.solver.pop()
                except Exception:  # noqa: BLE001
                    self._fresh_solver()
        return results

    def _fresh_solver(self):
        self.solver = z3.Solver()
        self.solver.set("timeout", self._solver_timeout_ms)
        self._pushed = False

    # -- property queries -------------------------------------------------------
    def query(self, pre, pc, bad, timeout_ms=20000):
        """Is pre /\\ pc /\\ bad satisfiable?  -> ("unsat"|"sat"|"unknown", model|None)"""
        s = z3.Solver()
        s.set("timeout", timeout_ms)
        if pre is not None:
            s.add(pre)
        s.add(*pc)
        s.add(bad)
        t = time.time()
        r = s.check()
        self.solver_time += time.time() - t
        self.nprove += 1
        self.last_smt2 = None
        if r == z3.unsat and self.keep_smt2:
            # simplified first: z3 prints degenerate applications ((and), (+ x)) that other parsers reject
            s2 = z3.Solver()
            for a in s.assertions():
                s2.add(z3.simplify(a))
            self.last_smt2 = s2.to_smt2()
        if r == z3.unsat:
            self.n_unsat += 1
            return "unsat", None
        if r == z3.sat:
            self.n_sat += 1
            return "sat", s.model()
        self.n_unknown += 1
        return "unknown", None

    def stats(self):
        return dict(feasibility_queries=self.nqueries, property_queries=self.nprove, branch_unknown=self.n_branch_unknown,
                    unsat=self.n_unsat, sat=self.n_sat, unknown=self.n_unknown,
                    solver_time_s=round(self.solver_time, 4))


# ---------------------------------------------------------------------------
# proxies
# ---------------------------------------------------------------------------

def is_sym(x):
    return isinstance(x, (SymNum, SymBool))


def lift(x):
    if isinstance(x, SymNum):
        return x
    if isinstance(x, SymBool):
        return x.as_num()
    if isinstance(x, bool):
        return SymNum(z3.IntVal(int(x)), False)
    if isinstance(x, int):
        return SymNum(z3.IntVal(x), False)
    if isinstance(x, float):
        if x != x or x in (float("inf"), float("-inf")):
            raise TypeError("non-finite float reached a proxy operation")
        from fractions import Fraction
        f = Fraction(x)
        return SymNum(z3.RealVal(f"{f.numerator}/{f.denominator}"), True)
    raise TypeError(f"cannot lift {type(x).__name__}")


def term(x, real=False):
    """z3 term of a proxy or a Python number."""
    s = lift(x)
    if real and not s.isf:
        return z3.ToReal(s.e)
    return s.e


class SymBool:
    __slots__ = ("e",)

    def __init__(self, e):
        self.e = e

    def __bool__(self):
        return _ENG.branch(self.e)

    def as_num(self):
        return SymNum(z3.If(self.e, z3.IntVal(1), z3.IntVal(0)), False)

    def __index__(self):
        return 1 if bool(self) else 0

    def __invert__(self):
        return self.as_num().__invert__()

    def __and__(self, o):
        if isinstance(o, SymBool):
            return SymBool(z3.And(self.e, o.e))
        if isinstance(o, bool):
            return SymBool(z3.And(self.e, z3.BoolVal(o)))
        return self.as_num() & o

    __rand__ = __and__

    def __or__(self, o):
        if isinstance(o, SymBool):
            return SymBool(z3.Or(self.e, o.e))
        if isinstance(o, bool):
            return SymBool(z3.Or(self.e, z3.BoolVal(o)))
        return self.as_num() | o

    __ror__ = __or__

    def __eq__(self, o):
        if isinstance(o, SymBool):
            return SymBool(self.e == o.e)
        if isinstance(o, bool):
            return SymBool(self.e == z3.BoolVal(o))
        return self.as_num() == o

    def __ne__(self, o):
        r = self.__eq__(o)
        return SymBool(z3.Not(r.e)) if isinstance(r, SymBool) else (not r)

    __hash__ = None

    # numeric protocol: Python's bool is an int
    def __add__(self, o): return self.as_num() + o
    def __radd__(self, o): return o + self.as_num()
    def __sub__(self, o): return self.as_num() - o
    def __rsub__(self, o): return o - self.as_num()
    def __mul__(self, o): return self.as_num() * o
    def __rmul__(self, o): return o * self.as_num()
    def __lt__(self, o): return self.as_num() < o
    def __le__(self, o): return self.as_num() <= o
    def __gt__(self, o): return self.as_num() > o
    def __ge__(self, o): return self.as_num() >= o
    def __neg__(self): return -self.as_num()
    def __deepcopy__(self, memo): return self
    def __copy__(self): return self
    def __repr__(self): return f"SymBool({self.e})"


def _fdiv(a, b):
    """Python floor division of z3 Ints (b != 0)."""
    return z3.If(b > 0, a / b, (-a) / (-b))


def _fmod(a, b):
    m = a % b  # z3: 0 <= m < |b|
    return z3.If(z3.And(b < 0, m != 0), m + b, m)


MAX_DEGREE = 16


class SymNum:
    """A Python int (z3 Int) or a Python float abstracted as a z3 Real."""
    __slots__ = ("e", "isf", "deg")

    def __init__(self, e, isf=False, deg=None):
        self.e = e
        self.isf = isf
        # (an estimate of) the polynomial degree of the term in the inputs: products beyond MAX_DEGREE are not handed to the solver
        # (its non-linear procedures do not honour time limits on such terms); the path is cut and reported as cut
        self.deg = deg if deg is not None else (0 if (z3.is_int_value(e) or z3.is_rational_value(e)) else 1)

    def _prod(self, o):
        d = self.deg + o.deg
        if d > MAX_DEGREE:
            if _ENG is not None:
                _ENG.truncated = True
                _ENG.soft_reasons.add(f"a product of degree > {MAX_DEGREE} was not handed to the solver")
            raise Abort("cut")
        return d

    # -- helpers
    def _pair(self, o, forcef=False):
        o = lift(o)
        isf = self.isf or o.isf or forcef
        a = z3.ToReal(self.e) if isf and not self.isf else self.e
        b = z3.ToReal(o.e) if isf and not o.isf else o.e
        return a, b, isf

    @staticmethod
    def _num(o):
        return isinstance(o, (int, float, SymNum, SymBool))

    # -- arithmetic
    def __add__(self, o):
        if not self._num(o): return NotImplemented
        a, b, f = self._pair(o); return SymNum(a + b, f, max(self.deg, lift(o).deg))

    def __radd__(self, o):
        if not self._num(o): return NotImplemented
        return lift(o).__add__(self)

    def __sub__(self, o):
        if not self._num(o): return NotImplemented
        a, b, f = self._pair(o); return SymNum(a - b, f, max(self.deg, lift(o).deg))

    def __rsub__(self, o):
        if not self._num(o): return NotImplemented
        return lift(o).__sub__(self)

    def __mul__(self, o):
        if not self._num(o):
            if isinstance(o, (list, tuple, str)):
                return o * self.__index__()
            return NotImplemented
        a, b, f = self._pair(o); return SymNum(a * b, f, self._prod(lift(o)))

    def __rmul__(self, o):
        if not self._num(o):
            if isinstance(o, (list, tuple, str)):
                return o * self.__index__()
            return NotImplemented
        return lift(o).__mul__(self)

    def __truediv__(self, o):
        if not self._num(o): return NotImplemented
        o = lift(o)
        if _ENG.branch(o.e == 0):
            raise ZeroDivisionError("division by zero")
        a, b, _ = self._pair(o, True)
        return SymNum(a / b, True, self._prod(o))

    def __rtruediv__(self, o):
        if not self._num(o): return NotImplemented
        return lift(o).__truediv__(self)

    def __floordiv__(self, o):
        if not self._num(o): return NotImplemented
        o = lift(o)
        if _ENG.branch(o.e == 0):
            raise ZeroDivisionError("integer division or modulo by zero")
        if self.isf or o.isf:
            a, b, _ = self._pair(o, True)
            return SymNum(z3.ToReal(z3.ToInt(a / b)), True, self._prod(o))
        return SymNum(_fdiv(self.e, o.e), False, self._prod(o))

    def __rfloordiv__(self, o):
        if not self._num(o): return NotImplemented
        return lift(o).__floordiv__(self)

    def __mod__(self, o):
        if not self._num(o): return NotImplemented
        o = lift(o)
        if _ENG.branch(o.e == 0):
            raise ZeroDivisionError("integer modulo by zero")
        if self.isf or o.isf:
            a, b, _ = self._pair(o, True)
            return SymNum(a - b * z3.ToReal(z3.ToInt(a / b)), True, self._prod(o))
        return SymNum(_fmod(self.e, o.e), False, self._prod(o))

    def __rmod__(self, o):
        if not self._num(o): return NotImplemented
        return lift(o).__mod__(self)

    def __divmod__(self, o):
        return (self // o, self % o)

    def __rdivmod__(self, o):
        if not self._num(o): return NotImplemented
        o = lift(o)
        return (o // self, o % self)

    def __neg__(self): return SymNum(-self.e, self.isf, self.deg)
    def __pos__(self): return self
    def __abs__(self): return SymNum(z3.If(self.e < 0, -self.e, self.e), self.isf, self.deg)

    # -- comparison
    def _cmp(self, o, f):
        a, b, _ = self._pair(o)
        return SymBool(f(a, b))

    def __lt__(self, o):
        if not self._num(o): return NotImplemented
        return self._cmp(o, lambda a, b: a < b)

    def __le__(self, o):
        if not self._num(o): return NotImplemented
        return self._cmp(o, lambda a, b: a <= b)

    def __gt__(self, o):
        if not self._num(o): return NotImplemented
        return self._cmp(o, lambda a, b: a > b)

    def __ge__(self, o):
        if not self._num(o): return NotImplemented
        return self._cmp(o, lambda a, b: a >= b)

    def __eq__(self, o):
        if not self._num(o): return False
        return self._cmp(o, lambda a, b: a == b)

    def __ne__(self, o):
        if not self._num(o): return True
        return self._cmp(o, lambda a, b: a != b)

    def __hash__(self):
        # a symbolic number used as a dict / set key (a cache in the code under analysis): all proxies hash alike, so lookups among
        # symbolic keys degrade to __eq__ chains that fork; a lookup against *concrete* keys stored earlier cannot see an equal one
        # (different hash), i.e. the "hit" side is not explored -- the exploration is marked incomplete (reported as cut)
        if _ENG is not None:
            _ENG.truncated = True
            _ENG.soft_reasons.add("a symbolic number was used as a dict / set key (lookups against concrete keys stored earlier are not modelled)")
        return 0x5EED

    def __bool__(self):
        return _ENG.branch(self.e != 0)

    # -- conversions
    def __index__(self):
        if self.isf:
            raise TypeError("'float' object cannot be interpreted as an integer")
        return concretize(self.e)

    def __floor__(self):
        return SymNum(z3.ToInt(self.e), False) if self.isf else self

    def __ceil__(self):
        return SymNum(-z3.ToInt(-self.e), False) if self.isf else self

    def __trunc__(self):
        if not self.isf:
            return self
        return SymNum(z3.If(self.e >= 0, z3.ToInt(self.e), -z3.ToInt(-self.e)), False)

    def __round__(self, n=None):
        if not self.isf:
            return self
        raise TypeError("round() of a float proxy is not modelled")

    def is_integer(self):
        if not self.isf:
            return True
        return bool(SymBool(z3.ToReal(z3.ToInt(self.e)) == self.e))

    # -- bit operations (constants only; LEB128 writer)
    def bit_length(self):
        assert not self.isf
        a = z3.If(self.e < 0, -self.e, self.e)
        _ENG.assume(a < 2 ** 64)
        # ite chain: smallest k with a < 2^k
        r = z3.IntVal(64)
        for k in range(63, -1, -1):
            r = z3.If(a < 2 ** k, z3.IntVal(k), r)
        return SymNum(r, False)

    # The cheap cases stay in linear integer arithmetic (what the LEB128 writers need); everything else goes through bit-vectors of
    # BIT_WIDTH bits (two's complement, like Python's unbounded ints as long as the operands fit, which is assumed on the path).
    BIT_WIDTH = 72

    def _bits(self, o):
        if self.isf:
            raise TypeError("unsupported operand type(s) for a bit operation: 'float'")
        if isinstance(o, (SymBool, bool)):
            o = lift(o)
        if isinstance(o, float) or (isinstance(o, SymNum) and o.isf):
            raise TypeError("unsupported operand type(s) for a bit operation: 'float'")
        if not isinstance(o, (int, SymNum)):
            return None
        a, b = self.e, lift(o).e
        if _ENG is not None and not (z3.is_int_value(a) and z3.is_int_value(b)):
            _ENG.soft_reasons.add("bit operations on symbolic operands went through the bit-vector fallback (queries mixing integers and bit-vectors are slow)")
        lim = 2 ** (self.BIT_WIDTH - 1)
        for t in (a, b):
            if not z3.is_int_value(t):
                _ENG.assume(z3.And(t >= -lim, t < lim))
        return z3.Int2BV(a, self.BIT_WIDTH), z3.Int2BV(b, self.BIT_WIDTH)

    @staticmethod
    def _unbits(bv):
        return SymNum(z3.BV2Int(bv, is_signed=True), False)

    def __and__(self, o):
        if isinstance(o, int) and not isinstance(o, bool) and o >= 0 and (o & (o + 1)) == 0:
            return SymNum(self.e % (o + 1), False)   # low-bit mask; z3 mod is non-negative, as Python's &
        ab = self._bits(o)
        if ab is None:
            return NotImplemented
        return self._unbits(ab[0] & ab[1])

    __rand__ = __and__

    def __rshift__(self, o):
        if isinstance(o, int) and o >= 0:
            return SymNum(self.e / (2 ** o), False)  # floor division by a positive constant
        raise TypeError("shift by a non-constant is not modelled")

    def __lshift__(self, o):
        if isinstance(o, int) and o >= 0:
            return SymNum(self.e * (2 ** o), False)
        raise TypeError("shift by a non-constant is not modelled")

    def __rlshift__(self, o):
        raise TypeError("shift by a non-constant is not modelled")

    __rrshift__ = __rlshift__

    def __or__(self, o):
        if isinstance(o, int) and not isinstance(o, bool) and o == 0:
            return self
        # b | 2^k where bit k of b is known to be clear and b >= 0
        if isinstance(o, int) and o > 0 and (o & (o - 1)) == 0:
            bit = (self.e / o) % 2
            if _ENG.branch(z3.And(self.e >= 0, bit == 0)):
                return SymNum(self.e + o, False)
            if _ENG.branch(z3.And(self.e >= 0, bit == 1)):
                return self
        ab = self._bits(o)
        if ab is None:
            return NotImplemented
        return self._unbits(ab[0] | ab[1])

    __ror__ = __or__

    def __xor__(self, o):
        if isinstance(o, int) and not isinstance(o, bool) and o == 0:
            return self
        ab = self._bits(o)
        if ab is None:
            return NotImplemented
        return self._unbits(ab[0] ^ ab[1])

    __rxor__ = __xor__

    def __invert__(self):
        if self.isf:
            raise TypeError("bad operand type for unary ~: 'float'")
        return SymNum(-self.e - 1, False, self.deg)

    def __deepcopy__(self, memo): return self
    def __copy__(self): return self

    def __repr__(self):
        if FORMAT_HOOK is not None:
            return FORMAT_HOOK(self)
        if REPR_CONCRETE and not self.isf and _ENG is not None:
            return repr(concretize(self.e))
        return f"Sym({self.e})"

    __str__ = __repr__

    def __format__(self, spec):
        if FORMAT_HOOK is not None:
            return FORMAT_HOOK(self)
        return format(self.__repr__(), spec) if not (REPR_CONCRETE and not self.isf) else format(concretize(self.e), spec)


def concretize(e, limit=48):
    """Fork over the feasible values of integer term e on the current path.
    The value tried after a given decision history is remembered, so that
    re-executions of a prefix try the same values in the same order."""
    eng = _ENG
    se = z3.simplify(e)
    if z3.is_int_value(se):
        return se.as_long()
    n = 0
    while True:
        key = tuple(eng.prefix[: eng.pos])
        if eng.pos < len(eng.prefix) and key in eng.conc:
            v = eng.conc[key]
        else:
            r = eng.check()
            if r == z3.unknown:
                eng.n_branch_unknown += 1
                eng.truncated = True
                eng.soft_reasons.add("the solver answered unknown to a value query")
                raise Abort("cut")
            if r != z3.sat:
                raise Abort("infeasible")
            v = eng.solver.model().eval(e, model_completion=True).as_long()
            eng.conc[key] = v
        before = eng.pos
        if eng.branch(e == v):
            return v
        if eng.pos == before:
            eng.conc.pop(key, None)
        n += 1
        if n > limit:
            # a value the code needs concretely (list index, range bound, table lookup) ranges over more values than are enumerated
            eng.truncated = True
            eng.soft_reasons.add(f"a symbolic index or count ranges over more than {limit} values (enumeration cut)")
            raise Abort("cut")


def sym_float(x=0.0):
    """Shim for builtin float() in modules under analysis."""
    if isinstance(x, SymNum):
        return x if x.isf else SymNum(z3.ToReal(x.e), True)
    if isinstance(x, SymBool):
        return sym_float(x.as_num())
    return float(x)


def sym_int(x=0, *a):
    """Shim for builtin int() in modules under analysis (truncation toward zero)."""
    if isinstance(x, SymNum):
        return x.__trunc__()
    if isinstance(x, SymBool):
        return x.as_num()
    return int(x, *a)


def sym_abs(x):
    return abs(x)


class SymName:
    """An identifier from an uninterpreted (integer-coded) domain.  All instances
    hash alike so that dict/set lookups degrade to __eq__ chains that fork."""
    __slots__ = ("e", "label")

    def __init__(self, e, label=None):
        self.e = e
        self.label = label or str(e)

    def __hash__(self):
        return 0

    def __eq__(self, o):
        if isinstance(o, SymName):
            return _ENG.branch(self.e == o.e)
        return False

    def __ne__(self, o):
        return not self.__eq__(o)

    def __repr__(self):
        return f"<{self.label}>"

    __str__ = __repr__

    def __format__(self, spec):
        return repr(self)
