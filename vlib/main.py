"""CLI: vcheck <Cxx> [--tier quick|thorough] | vcheck replay <file> | vcheck all [--tier ..]"""
import os
import sys
import json
import argparse
import importlib

HERE = os.path.dirname(os.path.abspath(__file__))
sys.path.insert(0, os.path.dirname(HERE))
sys.dont_write_bytecode = True


def prepare_repo():
    """Make PLY regenerate nsl/parsetab.py once, in this process, before any worker forks."""
    import io
    import contextlib
    with contextlib.redirect_stdout(io.StringIO()), contextlib.redirect_stderr(io.StringIO()):
        from nsl import parser
        parser.NslParser()


def main(argv):
    if len(argv) >= 2 and argv[0] == "replay":
        spec = json.load(open(argv[1]))
        mod = importlib.import_module("vlib.harness." + spec["harness"])
        reproduced = mod.replay(spec)
        if reproduced:
            print(f"VIOLATION property={spec.get('property')} replay={os.path.abspath(argv[1])}")
            print("  what:", spec.get("what"))
            print("  observed:", json.dumps(reproduced, default=repr)[:2000])
            return 1
        print("replay: not reproduced")
        return 0
    ap = argparse.ArgumentParser()
    ap.add_argument("prop")
    ap.add_argument("--tier", default=os.environ.get("VERIF_TIER", "quick"), choices=["quick", "thorough"])
    ap.add_argument("--only", default=None, help="restrict to a named part of the harness (debugging)")
    a = ap.parse_args(argv)
    seed = int(os.environ.get("VERIF_SEED", "0") or 0)
    try:
        prepare_repo()
    except BaseException as e:  # the tree under test does not even import
        print(f"HARNESS-ERROR: cannot import/construct the parser from /repo: {type(e).__name__}: {e}", file=sys.stderr)
        return 2
    props = [a.prop] if a.prop != "all" else [f"C{i:02d}" for i in range(1, 21) if i != 18]
    rc = 0
    for p in props:
        mod = importlib.import_module("vlib.harness." + p)
        r = mod.run(a.tier, seed, only=a.only)
        rc = max(rc, r)
    return rc


if __name__ == "__main__":
    sys.exit(main(sys.argv[1:]))
