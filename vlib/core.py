"""Plumbing shared by all checks: instance pool, evidence, findings, replay files, exit codes.

Exit codes: 0 = every explored obligation discharged (KNOWN-FINDING lines allowed),
1 = at least one unlisted, reproduced violation (VIOLATION line printed),
2 = machinery failure (nothing is claimed).
"""
import json
import os
import sys
import time
import hashlib
import traceback
import subprocess
import multiprocessing as mp

VERIF = os.path.dirname(os.path.dirname(os.path.abspath(__file__)))
REPO = os.environ.get("VERIF_REPO", "/repo")
EVIDENCE_DIR = os.path.join(VERIF, "evidence")
REPLAY_DIR = os.path.join(VERIF, "replays")
if REPO != "/repo":
    # runs against a scratch checkout (seeded changes) never touch the evidence of the real tree
    EVIDENCE_DIR = os.path.join(VERIF, "scratch", "evidence-" + os.path.basename(REPO.rstrip("/")))
    REPLAY_DIR = os.path.join(VERIF, "scratch", "replays-" + os.path.basename(REPO.rstrip("/")))
FINDINGS_FILE = os.path.join(VERIF, "known_findings.json")

LEVELS = {}  # property id -> level category (filled by harness modules through register)


def jsonable(x):
    try:
        json.dumps(x)
        return x
    except TypeError:
        if isinstance(x, dict):
            return {str(k): jsonable(v) for k, v in x.items()}
        if isinstance(x, (list, tuple, set)):
            return [jsonable(v) for v in x]
        return repr(x)


def load_findings(pid):
    if not os.path.exists(FINDINGS_FILE):
        return []
    data = json.load(open(FINDINGS_FILE))
    return [f for f in data.get("findings", []) if f.get("property") == pid]


class HarnessError(Exception):
    pass


def _worker(args):
    fn_module, fn_name, inst = args
    import importlib
    import io
    import contextlib
    t = time.time()
    try:
        mod = importlib.import_module(fn_module)
        fn = getattr(mod, fn_name)
        buf = io.StringIO()
        with contextlib.redirect_stdout(buf):
            res = fn(inst)
        res.setdefault("instance", str(inst)[:200])
    except BaseException as e:  # noqa: BLE001
        res = {"instance": str(inst)[:200], "errors": [f"{type(e).__name__}: {e}\n" + traceback.format_exc()[-1500:]]}
    res["wall"] = round(time.time() - t, 4)
    return res


def hard_limit():
    """wall limit of one instance in a pool worker; beyond it the worker is killed and the instance reported as undecided.
    The engine's own budgets (budgets(), path watchdog, solver timeouts) normally end an instance long before; this limit is
    for solver calls that ignore their time limit (z3's non-linear procedures occasionally do, for minutes)."""
    v = os.environ.get("VERIF_HARD_LIMIT_S")
    if v:
        return float(v)
    return 120.0 if os.environ.get("VERIF_TIER") == "quick" else 600.0


def _serve(conn):
    """loop of one pool worker: receive (index, args), send (index, result)"""
    while True:
        try:
            msg = conn.recv()
        except (EOFError, OSError):
            return
        if msg is None:
            return
        idx, a = msg
        res = _worker(a)
        try:
            conn.send((idx, res))
        except Exception as e:  # noqa: BLE001 -- an unpicklable result is a harness error of that instance
            conn.send((idx, {"instance": str(a[2])[:200], "errors": [f"result not transferable: {type(e).__name__}: {e}"]}))


def run_pool(fn_module, fn_name, instances, procs=None, chunksize=None):
    """Run fn(inst) for every instance in forked worker processes; returns the result dicts in order.
    Every instance has a hard wall limit (hard_limit()): a worker that exceeds it is killed and replaced, and the
    instance is returned as undecided with a note - never as passed."""
    from multiprocessing.connection import wait
    procs = procs or min(16, os.cpu_count() or 4)
    args = [(fn_module, fn_name, i) for i in instances]
    if not args:
        return []
    if procs <= 1 or len(args) == 1:
        return [_worker(a) for a in args]
    ctx = mp.get_context("fork")
    limit = hard_limit()
    results = [None] * len(args)
    pending = list(range(len(args)))[::-1]          # pop() takes the next index
    workers = {}                                    # conn -> [process, current index or None, start time]

    def spawn():
        parent, child = ctx.Pipe()
        p = ctx.Process(target=_serve, args=(child,), daemon=True)
        p.start()
        child.close()
        workers[parent] = [p, None, 0.0]
        return parent

    def feed(conn):
        w = workers[conn]
        if pending:
            w[1] = pending.pop()
            w[2] = time.time()
            conn.send((w[1], args[w[1]]))
        else:
            w[1] = None

    for _ in range(min(procs, len(args))):
        feed(spawn())
    done = 0
    while done < len(args):
        busy = [c for c, w in workers.items() if w[1] is not None]
        for c in wait(busy, timeout=0.5):
            w = workers[c]
            try:
                idx, res = c.recv()
            except (EOFError, OSError):
                # the worker died (killed from outside, out of memory, crash of a native library): harness error of that instance
                idx = w[1]
                res = {"instance": str(args[idx][2])[:200], "errors": [f"pool worker died while running this instance (exit code {w[0].exitcode})"]}
                w[0].join(timeout=1)
                del workers[c]
                c = spawn()
            results[idx] = res
            done += 1
            feed(c)
        now = time.time()
        for c, w in list(workers.items()):
            if w[1] is not None and now - w[2] > limit:
                idx = w[1]
                try:
                    os.kill(w[0].pid, 9)
                except OSError:
                    pass
                w[0].join(timeout=2)
                del workers[c]
                c.close()
                results[idx] = {"instance": str(args[idx][2])[:200], "undecided": 1, "hard_timeout": True, "wall": round(now - w[2], 1),
                                "notes": [f"instance exceeded the hard wall limit of {limit:.0f} s (a solver call that ignores its time limit); worker killed; not decided"]}
                done += 1
                feed(spawn())
    for c, w in workers.items():
        try:
            c.send(None)
        except Exception:  # noqa: BLE001
            pass
    for c, w in workers.items():
        w[0].join(timeout=2)
        if w[0].is_alive():
            w[0].kill()
    return results


def budgets():
    """(wall budget of one instance's exploration, slack of its query phase, timeout of one property query in ms).
    The quick tier gives up earlier on the few members whose queries are hard non-linear ones: they are reported
    as undecided / cut there and get the full budget in the thorough tier."""
    if os.environ.get("VERIF_TIER") == "quick":
        return 30.0, 20.0, 6000
    return 90.0, 60.0, 15000


class Check:
    """Accumulates what a check run covered and writes the evidence file."""

    def __init__(self, pid, level, tier, seed, rule, design_ref=""):
        self.pid = pid
        self.level = level
        self.tier = tier
        os.environ["VERIF_TIER"] = tier          # read by the per-instance budgets (budgets()) in the pool workers
        if tier == "thorough":
            os.environ.setdefault("VERIF_SECOND_SOLVER", "1")     # unit harnesses re-decide their first queries with cvc5 (vlib/second.py)
        self.seed = seed
        self.rule = rule
        self.t0 = time.time()
        self.evaluations = 0
        self.nontrivial = set()
        self.paths = 0
        self.cut = 0
        self.timeouts = 0
        self.queries = 0
        self.unsat = 0
        self.sat = 0
        self.sat_replayed = 0
        self.undecided = 0
        self.solver_time = 0.0
        self.samples = []
        self.funcs = set()
        self.violations = []      # dicts: what, replay(spec)
        self.known_hit = {}       # finding id -> what
        self.errors = []
        self.assumptions = []
        self.bounds = {}
        self.shims = []
        self.extra = {}
        self.parts = {}           # named sub-harness summaries
        self.disagreements_checked = 0
        self.exhaustive = None

    # -- aggregation ---------------------------------------------------------
    def absorb(self, res, part=None):
        self.evaluations += 1
        for k, attr in (("paths", "paths"), ("cut", "cut"), ("timeouts", "timeouts"), ("queries", "queries"),
                        ("unsat", "unsat"), ("sat", "sat"), ("undecided", "undecided"), ("sat_replayed", "sat_replayed")):
            setattr(self, attr, getattr(self, attr) + int(res.get(k, 0)))
        self.solver_time += float(res.get("solver_time", 0.0))
        self.disagreements_checked += int(res.get("disagreements_checked", res.get("sat", 0)))
        if res.get("nontrivial"):
            self.nontrivial.add(res.get("key", res.get("instance")))
        for f in res.get("funcs", []):
            self.funcs.add(f)
        for e in res.get("errors", []):
            self.errors.append(f"{res.get('instance')}: {e}")
        for v in res.get("violations", []):
            self.violations.append(v)
        for k in res.get("known", []):
            self.known_hit.setdefault(k["id"], k.get("what", ""))
        for k, v in res.get("counters", {}).items():
            c = self.extra.setdefault("counters", {})
            c[k] = c.get(k, 0) + v
        for n in res.get("notes", []):
            self.extra.setdefault("notes", [])
            if len(self.extra["notes"]) < 20:
                self.extra["notes"].append(f"{str(res.get('instance'))[:160]}: {n}")
        if "sample" in res and len(self.samples) < 12:
            self.samples.append(jsonable(res["sample"]))
        if part:
            p = self.parts.setdefault(part, {"instances": 0, "paths": 0, "queries": 0, "unsat": 0, "sat": 0, "undecided": 0, "cut": 0})
            p["instances"] += 1
            for k in ("paths", "queries", "unsat", "sat", "undecided", "cut"):
                p[k] += int(res.get(k, 0))

    def absorb_all(self, results, part=None):
        for r in results:
            self.absorb(r, part)

    # -- reporting ---------------------------------------------------------------
    def _write_replay(self, v):
        os.makedirs(REPLAY_DIR, exist_ok=True)
        spec = dict(v.get("replay") or {})
        spec["property"] = self.pid
        spec["what"] = v.get("what")
        h = hashlib.sha1(json.dumps(jsonable(spec), sort_keys=True).encode()).hexdigest()[:12]
        path = os.path.join(REPLAY_DIR, f"{self.pid}-{h}.json")
        with open(path, "w") as f:
            json.dump(jsonable(spec), f, indent=1, sort_keys=True)
        return path

    def finish(self, confirm=True):
        wall = time.time() - self.t0
        reported = []
        seen = set()
        for v in self.violations:
            path = self._write_replay(v)
            if path in seen:
                continue
            seen.add(path)
            ok = True
            if confirm and v.get("replay"):
                ok = confirm_replay(path)
                if ok is None:
                    self.errors.append(f"replay of {path} did not reproduce: {v.get('what')}")
                    continue
            reported.append((v, path))
        for fid, what in sorted(self.known_hit.items()):
            print(f"KNOWN-FINDING: property={self.pid} {fid}: {what}")
        for v, path in reported[:25]:
            print(f"VIOLATION property={self.pid} replay={path}")
            print(f"  what: {v.get('what')}")
        if len(reported) > 25:
            print(f"  ... and {len(reported) - 25} more violations (replay files written)")
        cov = {
            "evaluations": self.evaluations,
            "distinct_nontrivial": len(self.nontrivial),
            "rule": self.rule,
            "samples": self.samples[:12] or ["<none>"],
            "programs": self.evaluations,
            "disagreements_checked": self.disagreements_checked,
            "obligations": self.queries,
            "discharged": self.unsat,
            "paths": self.paths,
            "cut_paths": self.cut,
            "timeout_paths": self.timeouts,
            "queries": self.queries,
            "unsat": self.unsat,
            "sat": self.sat,
            "sat_replayed": self.sat_replayed,
            "undecided": self.undecided,
            "solver_time_s": round(self.solver_time, 3),
            "functions_encoded": sorted(self.funcs),
            "bounds": self.bounds,
            "shims": self.shims,
            "parts": self.parts,
            "known_findings_hit": sorted(self.known_hit),
            "harness_errors": self.errors[:10],
        }
        if self.exhaustive is not None:
            cov["exhaustive"] = self.exhaustive
        cov.update(self.extra)
        ev = {
            "property_id": self.pid,
            "tier": self.tier,
            "seed": self.seed,
            "level": self.level,
            "coverage": jsonable(cov),
            "assumptions": self.assumptions,
            "wall_s": round(wall, 2),
            "violations": len(reported),
        }
        os.makedirs(EVIDENCE_DIR, exist_ok=True)
        with open(os.path.join(EVIDENCE_DIR, f"{self.pid}.json"), "w") as f:
            json.dump(ev, f, indent=1)
        print(f"[{self.pid}] tier={self.tier} instances={self.evaluations} nontrivial={len(self.nontrivial)} "
              f"paths={self.paths} queries={self.queries} unsat={self.unsat} sat={self.sat} undecided={self.undecided} "
              f"cut={self.cut} known={len(self.known_hit)} violations={len(reported)} errors={len(self.errors)} "
              f"solver={self.solver_time:.1f}s wall={wall:.1f}s")
        if self.errors:
            for e in self.errors[:8]:
                print("HARNESS-ERROR:", e, file=sys.stderr)
        if reported:
            return 1            # a reproduced violation stands, whatever else went wrong in the run
        if self.errors:
            return 2
        return 0


def confirm_replay(path):
    """Re-run a replay file in a fresh process (no proxies, no shims).  True = the
    violation reproduces, None = it does not."""
    py = os.path.join(VERIF, ".venv", "bin", "python")
    try:
        r = subprocess.run([py, os.path.join(VERIF, "vcheck"), "replay", path], capture_output=True, text=True, timeout=120)
    except subprocess.TimeoutExpired:
        return None
    return True if r.returncode == 1 else None
