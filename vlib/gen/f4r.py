"""Family F4 (random part): typed random programs over scalars, vectors and matrices --
compositions of the operations the exhaustive tables of f4 cover one at a time: constructors in
random splits, swizzle reads on variables / rows / array elements, component-wise operators,
scaling, matrix product, element / row / swizzle writes (also compound), copies, all inside
straight-line code with an occasional branch or bounded loop.  Only value-preserving
conversions occur (int -> float); `%`, `&&`, `||` on vectors are not generated (known finding
of C09).  Deterministic in (seed, index)."""
import random
from . import Item
from ..nslref import ast as A

LET = "xyzw"


class G:
    def __init__(self, rnd, depth):
        self.r = rnd
        self.depth = depth
        self.n = 0
        self.bounds = {}
        self.tags = set()

    def fresh(self, b):
        self.n += 1
        return f"{b}{self.n}"

    # ---------------------------------------------------------------- helpers
    def vars_of(self, env, t):
        return [n for n, vt in env.items() if vt == t]

    def lit(self, t):
        if t == "int":
            return A.Lit(self.r.choice([0, 1, 2, 3, 5]))
        return A.Lit(self.r.choice([0.5, 1.0, 2.0, 2.5, 4.0]), "float")

    def idx(self, env, size):
        """an index expression inside [0, size)"""
        if "i" in env and self.r.random() < 0.4:
            lo, hi = self.bounds.get("i", (0, 3))
            self.bounds["i"] = (0, min(hi, size - 1))
            return A.Var("i")
        return A.Lit(self.r.randrange(size))

    def access(self, env, t):
        """an lvalue-shaped expression (variable / element / row / swizzle) of type t, or None"""
        r = self.r
        opts = []
        for n, vt in env.items():
            if vt == t:
                opts.append(A.Var(n))
            if A.is_vec(vt):
                c, k = A.comp_of(vt), A.vec_n(vt)
                if t == c:
                    opts.append(A.Index(A.Var(n), self.idx(env, k)))
                    opts.append(A.Member(A.Var(n), r.choice(LET[:k])))
                if A.is_vec(t) and A.comp_of(t) == c:
                    m = A.vec_n(t)
                    opts.append(A.Member(A.Var(n), "".join(r.choice(LET[:k]) for _ in range(m))))
            if A.is_mat(vt):
                k = A.mat_n(vt)
                if t == f"float{k}":
                    opts.append(A.Index(A.Var(n), self.idx(env, k)))
                if t == "float":
                    opts.append(A.Index(A.Index(A.Var(n), self.idx(env, k)), self.idx(env, k)))
                    opts.append(A.Member(A.Index(A.Var(n), self.idx(env, k)), r.choice(LET[:k])))
                if A.is_vec(t) and A.comp_of(t) == "float" and A.vec_n(t) <= k and r.random() < 0.5:
                    opts.append(A.Member(A.Index(A.Var(n), self.idx(env, k)), "".join(r.choice(LET[:k]) for _ in range(A.vec_n(t)))))
            if A.is_arr(vt) and vt[1] == t:
                opts.append(A.Index(A.Var(n), self.idx(env, vt[2][0])))
        return r.choice(opts) if opts else None

    # ---------------------------------------------------------------- expressions
    def expr(self, env, t, d):
        r = self.r
        if d <= 0 or r.random() < 0.2:
            a = self.access(env, t)
            if a is not None and r.random() < 0.85:
                return a
            if A.is_scalar(t):
                return self.lit(t)
            if A.is_mat(t):
                return A.Construct(t, [self.construct(env, f"float{A.mat_n(t)}", 0) for _ in range(A.mat_n(t))])
            return self.construct(env, t, 0)
        if t in ("int", "float"):
            k = r.random()
            if k < 0.35:
                a = self.access(env, t)
                if a is not None:
                    return a
            if t == "float":
                op = r.choice(["+", "-", "*", "/"])
                lt, rt = r.choice([("float", "float"), ("float", "int"), ("int", "float")])
                right = self.lit(rt) if op == "/" else self.expr(env, rt, d - 1)
                if op == "/" and isinstance(right, A.Lit) and right.value == 0:
                    right = A.Lit(2.0, "float") if rt == "float" else A.Lit(2)
                return A.Bin(op, self.expr(env, lt, d - 1), right)
            if k < 0.8:
                return A.Bin(r.choice(["+", "-", "*"]), self.expr(env, "int", d - 1), self.expr(env, "int", d - 1))
            ct = r.choice(["int", "float"])
            return A.Bin(r.choice(["<", "<=", ">", ">=", "==", "!="]), self.expr(env, ct, d - 1), self.expr(env, ct, d - 1))
        if A.is_vec(t):
            c, n = A.comp_of(t), A.vec_n(t)
            k = r.random()
            if c == "float" and n in (3, 4) and k < 0.1:
                return A.Bin("*", self.expr(env, f"float{n}x{n}", d - 1), self.expr(env, t, d - 1))        # matrix * vector
            if k < 0.25:
                return self.construct(env, t, d - 1)
            if k < 0.45:
                return A.Bin(r.choice(["+", "-"]), self.expr(env, t, d - 1), self.expr(env, t, d - 1))
            if k < 0.6:
                return A.Bin("*", self.expr(env, t, d - 1), self.expr(env, c, d - 1))
            if k < 0.7:
                return A.Bin("*", self.expr(env, c, d - 1), self.expr(env, t, d - 1))
            if k < 0.8:
                div = self.lit(c) if r.random() < 0.7 else self.expr(env, c, 0)
                if isinstance(div, A.Lit) and div.value == 0:
                    div = A.Lit(2) if c == "int" else A.Lit(2.0, "float")
                return A.Bin("/", self.expr(env, t, d - 1), div)
            if k < 0.9 and c == "int":
                ct = r.choice([f"int{n}", f"float{n}"])
                return A.Bin(r.choice(["<", "<=", ">", ">=", "==", "!="]), self.expr(env, ct, d - 1), self.expr(env, ct, d - 1))
            if c == "float" and r.random() < 0.5:
                return A.Bin("+", self.expr(env, t, d - 1), self.expr(env, f"int{n}", d - 1))       # promotion of an int vector
            a = self.access(env, t)
            return a if a is not None else self.construct(env, t, d - 1)
        if A.is_mat(t):
            n = A.mat_n(t)
            k = r.random()
            if k < 0.2:
                return A.Construct(t, [self.expr(env, f"float{n}", d - 1) for _ in range(n)])
            if k < 0.45:
                return A.Bin(r.choice(["+", "-"]), self.expr(env, t, d - 1), self.expr(env, t, d - 1))
            if k < 0.65:
                sc = self.lit("float") if r.random() < 0.6 else self.expr(env, "float", 0)
                op = r.choice(["*", "/"])
                if op == "*" and r.random() < 0.4:
                    return A.Bin("*", sc, self.expr(env, t, d - 1))                                          # scalar * matrix
                return A.Bin(op, self.expr(env, t, d - 1), sc)
            if k < 0.8:
                return A.Bin("*", self.expr(env, t, d - 1), self.expr(env, t, d - 1))
            a = self.access(env, t)
            return a if a is not None else A.Construct(t, [self.construct(env, f"float{n}", 0) for _ in range(n)])
        raise ValueError(t)

    def construct(self, env, t, d):
        c, n = A.comp_of(t), A.vec_n(t)
        parts, left = [], n
        while left > 0:
            p = self.r.randint(1, min(left, n - 1))
            parts.append(p)
            left -= p
        args = []
        for p in parts:
            at = c if (c == "int" or self.r.random() < 0.7) else "int"      # int parts are promoted in a float constructor
            args.append(self.expr(env, A.vec_t(at, p), d))
        return A.Construct(t, args)

    # ---------------------------------------------------------------- statements
    def stmt(self, env, budget, in_loop=False):
        r = self.r
        k = r.random()
        writable = [(n, t) for n, t in env.items() if n not in ("i", "n") and not A.is_arr(t)]
        if k < 0.3 or not writable:
            t = r.choice(TYPES)
            name = self.fresh("v")
            init = self.expr(env, t, self.depth) if r.random() < 0.8 else None
            env[name] = t
            return A.Decl(t, name, init)
        n, t = r.choice(writable)
        if k < 0.5:
            return A.ExprStmt(A.Assign(A.Var(n), self.expr(env, t, self.depth)))
        if k < 0.75 and (A.is_vec(t) or A.is_mat(t)):
            self.tags.add("partial-write")
            if A.is_vec(t):
                c, m = A.comp_of(t), A.vec_n(t)
                if r.random() < 0.5:
                    ln = r.randint(1, m)
                    mask = "".join(r.sample(LET[:m], ln))
                    val = self.expr(env, A.vec_t(c, ln), self.depth - 1)
                    return A.ExprStmt(A.Assign(A.Member(A.Var(n), mask), val, r.choice(["=", "=", "+=", "-="]) if ln > 0 else "="))
                return A.ExprStmt(A.Assign(A.Index(A.Var(n), self.idx(env, m)), self.expr(env, c, self.depth - 1), r.choice(["=", "=", "+=", "*="])))
            m = A.mat_n(t)
            if r.random() < 0.5:
                return A.ExprStmt(A.Assign(A.Index(A.Var(n), self.idx(env, m)), self.expr(env, f"float{m}", self.depth - 1)))
            return A.ExprStmt(A.Assign(A.Index(A.Index(A.Var(n), self.idx(env, m)), self.idx(env, m)), self.expr(env, "float", self.depth - 1), r.choice(["=", "=", "+="])))
        if k < 0.85:
            op = r.choice(["+=", "-="]) if not A.is_scalar(t) else r.choice(["+=", "-=", "*="])
            self.tags.add("compound")
            return A.ExprStmt(A.Assign(A.Var(n), self.expr(env, t, self.depth - 1), op))
        if k < 0.93 and budget > 0:
            self.tags.add("if")
            ct = r.choice(["int", "float"])
            cond = A.Bin(r.choice(["<", ">", "==", "<="]), self.expr(env, ct, 1), self.expr(env, ct, 1))
            inner = dict(env)
            then = A.Block([self.stmt(inner, 0, in_loop) for _ in range(r.randint(1, 2))])
            els = None
            if r.random() < 0.5:
                inner2 = dict(env)
                els = A.Block([self.stmt(inner2, 0, in_loop) for _ in range(r.randint(1, 2))])
            return A.If(cond, then, els)
        if budget > 0 and "n" in env and not in_loop:
            self.tags.add("loop")
            j = self.fresh("j")
            inner = dict(env)
            body = A.Block([self.stmt(inner, 0, True) for _ in range(r.randint(1, 2))])
            return A.For(A.Decl("int", j, A.Lit(0)), A.Bin("<", A.Var(j), A.Var("n")), A.Affix("++", A.Var(j), True), body)
        return A.ExprStmt(A.Assign(A.Var(n), self.expr(env, t, self.depth)))

    def program(self):
        r = self.r
        env, params = {}, []
        for k in range(r.randint(2, 4)):
            t = r.choice(TYPES)
            name = "pqrs"[k]
            params.append((t, name))
            env[name] = t
        if r.random() < 0.6:
            params.append(("int", "i"))
            env["i"] = "int"
            self.bounds["i"] = (0, 3)
        if r.random() < 0.4:
            params.append(("int", "n"))
            env["n"] = "int"
            self.bounds["n"] = (0, 2)
        body = []
        if r.random() < 0.3:
            et = r.choice(["float3", "float2", "int2"])
            body.append(A.Decl(("arr", et, (2,)), "arr"))
            env["arr"] = ("arr", et, (2,))
            body.append(A.ExprStmt(A.Assign(A.Index(A.Var("arr"), A.Lit(0)), self.expr(env, et, 1))))
            body.append(A.ExprStmt(A.Assign(A.Index(A.Var("arr"), A.Lit(1)), self.expr(env, et, 1))))
            self.tags.add("array")
        for _ in range(r.randint(2, 5)):
            body.append(self.stmt(env, 1))
        ret = r.choice(TYPES)
        body.append(A.Return(self.expr(env, ret, self.depth)))
        return A.Program([A.Func("f", params, ret, A.Block(body))])


TYPES = ["float", "int", "float2", "float3", "float4", "int2", "int3", "float3x3", "float3", "float4", "float4x4", "int4"]


def generate(seed, count, depth=2):
    from .f1 import in_domain_somewhere
    out, idx = [], 0
    while len(out) < count:
        rnd = random.Random(f"f4r/{seed}/{idx}")
        idx += 1
        g = G(rnd, depth)
        try:
            prog = g.program()
            prog.src()
        except (ValueError, AssertionError, IndexError):
            continue
        it = Item(prog, "f", g.tags | {"random", "vecmat"}, f"f4r#{seed}/{idx - 1}", dict(g.bounds))
        it.small = True
        if not in_domain_somewhere(it, rnd):
            continue
        out.append(it)
    return out
