"""Family F1 (random part): well-typed scalar programs over int/float with local arrays and a
struct as storage, all statement forms, counter loops bounded by a parameter `n`.
Binary expressions are printed fully parenthesised (grouping is C08's subject).
Deterministic in (seed, index)."""
import random
from . import Item, has_nonlinear
from ..nslref import ast as A

ARITH_I = ["+", "-", "*", "/", "%"]
ARITH_F = ["+", "-", "*", "/"]
CMP = ["<", "<=", ">", ">=", "==", "!="]
LOGIC = ["&&", "||"]
INT_LITS = [0, 1, 2, 3, 7, 10]
FLT_LITS = [0.5, 2.5, 1.0, 4.0]


class Gen:
    def __init__(self, rnd, depth=3, nmax=3):
        self.r = rnd
        self.depth = depth
        self.nmax = nmax
        self.counter = 0
        self.bounds = {}
        self.tags = set()
        self.structs = []

    def fresh(self, base):
        self.counter += 1
        return f"{base}{self.counter}"

    # ------------------------------------------------------------ expressions
    def vars_of(self, env, t, writable=False):
        return [n for n, (vt, ro) in env.items() if vt == t and not (writable and ro)]

    def atom(self, env, t):
        r = self.r
        choices = []
        vs = self.vars_of(env, t)
        if vs:
            choices += ["var"] * 4
        arrs = [n for n, (vt, _) in env.items() if A.is_arr(vt) and vt[1] == t]
        if arrs:
            choices += ["arr"] * 2
        sts = [n for n, (vt, _) in env.items() if A.is_struct(vt)]
        if sts:
            choices += ["mem"]
        choices += ["lit"] * 2
        c = r.choice(choices)
        if c == "var":
            return A.Var(r.choice(vs))
        if c == "arr":
            n = r.choice(arrs)
            return self.index_expr(env, n)
        if c == "mem":
            n = r.choice(sts)
            st = [s for s in self.structs if s.name == env[n][0][1]][0]
            fs = [fn for ft, fn in st.fields if ft == t]
            if fs:
                return A.Member(A.Var(n), r.choice(fs))
        if t == "int":
            return A.Lit(r.choice(INT_LITS))
        return A.Lit(r.choice(FLT_LITS), "float")

    def index_expr(self, env, arr):
        t = env[arr][0]
        e = A.Var(arr)
        for d in t[2]:
            e = A.Index(e, self.index(env, d))
        return e

    def index(self, env, size):
        r = self.r
        k = r.random()
        loopvars = [n for n, (vt, ro) in env.items() if vt == "int" and ro and n.startswith("i")]
        if k < 0.45 or not (loopvars or "k" in env):
            return A.Lit(r.randrange(size))
        if k < 0.8 and loopvars and size > self.nmax - 1:
            return A.Var(r.choice(loopvars))        # loop counters stay below n <= nmax <= size
        if "k" in env:
            self.bounds.setdefault("k", (0, 1))
            return A.Var("k")
        return A.Lit(r.randrange(size))

    def expr(self, env, t, depth):
        r = self.r
        if depth <= 0 or r.random() < 0.25:
            return self.atom(env, t)
        if t == "int":
            k = r.random()
            if k < 0.55:
                op = r.choice(["+", "-", "*", "+", "-", "/", "%"])
                if op in ("/", "%"):
                    right = A.Lit(r.choice([2, 3, 7])) if r.random() < 0.7 else self.expr(env, "int", depth - 1)
                    if isinstance(right, A.Lit) and right.value == 0:
                        right = A.Lit(2)
                    return A.Bin(op, self.expr(env, "int", depth - 1), right)
                return A.Bin(op, self.expr(env, "int", depth - 1), self.expr(env, "int", depth - 1))
            if k < 0.85:
                lt = r.choice(["int", "int", "float"])
                rt = r.choice(["int", "int", "float"])
                return A.Bin(r.choice(CMP), self.expr(env, lt, depth - 1), self.expr(env, rt, depth - 1))
            return A.Bin(r.choice(LOGIC), self.expr(env, "int", depth - 1), self.expr(env, "int", depth - 1))
        # float: at least one float operand
        op = r.choice(["+", "-", "*", "+", "-", "/", "&&", "||"])
        if op in LOGIC:      # && / || of a float and an int/float operand is float-typed (0/1)
            lt, rt = r.choice([("float", "float"), ("float", "int"), ("int", "float")])
            return A.Bin(op, self.expr(env, lt, depth - 1), self.expr(env, rt, depth - 1))
        lt, rt = r.choice([("float", "float"), ("float", "int"), ("int", "float")])
        if op == "/":
            right = A.Lit(r.choice([2, 4]) if rt == "int" else r.choice([0.5, 2.0, 4.0]), rt) if r.random() < 0.7 else self.expr(env, rt, depth - 1)
            if isinstance(right, A.Lit) and right.value == 0:
                right = A.Lit(2, rt) if rt == "int" else A.Lit(2.0, "float")
            return A.Bin(op, self.expr(env, lt, depth - 1), right)
        return A.Bin(op, self.expr(env, lt, depth - 1), self.expr(env, rt, depth - 1))

    def cond(self, env):
        r = self.r
        k = r.random()
        if k < 0.75:
            t = r.choice(["int", "int", "float"])
            return A.Bin(r.choice(CMP), self.expr(env, t, 1), self.expr(env, t if r.random() < 0.7 else "int", 1))
        if k < 0.9:
            return A.Bin(r.choice(LOGIC), self.cond(env), self.cond(env))
        return self.atom(env, "int")

    # ------------------------------------------------------------ statements
    def lvalue(self, env):
        """-> (target expr, type) among writable scalars, array elements, struct fields"""
        r = self.r
        opts = []
        for n, (vt, ro) in env.items():
            if ro:
                continue
            if vt in ("int", "float"):
                opts += [("var", n)] * 3
            elif A.is_arr(vt):
                opts += [("arr", n)] * 2
            elif A.is_struct(vt):
                opts.append(("mem", n))
        if not opts:
            return None, None
        kind, n = r.choice(opts)
        if kind == "var":
            return A.Var(n), env[n][0]
        if kind == "arr":
            return self.index_expr(env, n), env[n][0][1]
        st = [s for s in self.structs if s.name == env[n][0][1]][0]
        ft, fn = r.choice(st.fields)
        return A.Member(A.Var(n), fn), ft

    def rhs_type(self, t):
        return "int" if t == "int" else self.r.choice(["float", "float", "int"])

    def simple(self, env, in_loop):
        r = self.r
        k = r.random()
        tgt, t = self.lvalue(env)
        if tgt is None:
            k = 1.0
        if k < 0.4:
            return A.ExprStmt(A.Assign(tgt, self.expr(env, self.rhs_type(t), self.depth)))
        if k < 0.65:
            op = r.choice(["+=", "-=", "*=", "+=", "/="])
            self.tags.add("compound")
            if op == "/=":
                val = A.Lit(r.choice([2, 3]) if t == "int" else r.choice([2.0, 4.0]), t)
            else:
                val = self.expr(env, self.rhs_type(t), self.depth - 1)
            return A.ExprStmt(A.Assign(tgt, val, op))
        if k < 0.8:
            vs = [n for n, (vt, ro) in env.items() if vt in ("int", "float") and not ro]
            if vs:
                self.tags.add("affix")
                n = r.choice(vs)
                ax = A.Affix(r.choice(["++", "--"]), A.Var(n), r.random() < 0.5)
                k2 = r.random()
                if k2 < 0.5:
                    return A.ExprStmt(ax)
                tgt2, t2 = self.lvalue(env)
                if tgt2 is not None and (t2 == "float" or env[n][0] == "int") and not (isinstance(tgt2, A.Var) and tgt2.name == n):
                    return A.ExprStmt(A.Assign(tgt2, ax))
                return A.ExprStmt(ax)
        # declaration (added to env by the caller through the returned node)
        t = r.choice(["int", "int", "float"])
        name = self.fresh("v")
        init = self.expr(env, self.rhs_type(t), self.depth - 1) if r.random() < 0.6 else None
        env[name] = (t, False)
        self.tags.add("decl")
        return A.Decl(t, name, init)

    def stmts(self, env, budget, nest, in_loop):
        out = []
        n = self.r.randint(1, max(1, budget))
        for _ in range(n):
            out.append(self.stmt(env, budget - 1, nest, in_loop))
        return out

    def block(self, env, budget, nest, in_loop):
        inner = dict(env)
        return A.Block(self.stmts(inner, budget, nest, in_loop))

    def stmt(self, env, budget, nest, in_loop):
        r = self.r
        k = r.random()
        if nest >= 3 or budget <= 0:
            k = min(k, 0.49)
        if k < 0.5:
            return self.simple(env, in_loop)
        if k < 0.72:
            self.tags.add("if")
            then = self.branch_body(env, budget, nest, in_loop)
            els = self.branch_body(env, budget, nest, in_loop) if r.random() < 0.5 else None
            return A.If(self.cond(env), then, els)
        if k < 0.92 and "n" in env:
            return self.loop(env, budget, nest)
        if in_loop and r.random() < 0.8:
            self.tags.add("jump")
            return A.If(self.cond(env), r.choice([A.Break(), A.Continue()]))
        if r.random() < 0.3:
            self.tags.add("early-return")
            return A.If(self.cond(env), A.Return(self.expr(env, self.ret, 1)))
        return self.simple(env, in_loop)

    def branch_body(self, env, budget, nest, in_loop):
        r = self.r
        if in_loop and r.random() < 0.2:
            self.tags.add("jump")
            return r.choice([A.Break(), A.Continue()])
        if r.random() < 0.3:
            inner = dict(env)
            s = self.simple(inner, in_loop)
            if isinstance(s, A.Decl):       # a lone declaration as branch body is legal but pointless; wrap
                return A.Block([s])
            return s
        return self.block(env, min(budget, 2), nest + 1, in_loop)

    def loop(self, env, budget, nest):
        r = self.r
        kind = r.choice(["for", "for", "while", "do"])
        self.tags.add(kind)
        self.tags.add("loop")
        i = self.fresh("i")
        inner = dict(env)
        inner[i] = ("int", True)
        if kind == "for":
            body = self.block(inner, min(budget, 3), nest + 1, True)
            nxt = r.choice([A.Affix("++", A.Var(i), True), A.Affix("++", A.Var(i), False), A.Assign(A.Var(i), A.Lit(1), "+="),
                            A.Assign(A.Var(i), A.Bin("+", A.Var(i), A.Lit(1)))])
            return A.For(A.Decl("int", i, A.Lit(0)), A.Bin("<", A.Var(i), A.Var("n")), nxt, body)
        # while / do: the counter is advanced first so that `continue` cannot skip it
        body = self.block(inner, min(budget, 3), nest + 1, True)
        body.stmts.insert(0, A.ExprStmt(A.Assign(A.Var(i), A.Bin("+", A.Var(i), A.Lit(1)))))
        env[i] = ("int", True)
        init = A.Decl("int", i, A.Bin("-", A.Lit(0), A.Lit(1)))
        cond = A.Bin("<", A.Var(i), A.Bin("-", A.Var("n"), A.Lit(1)))
        loop = A.While(cond, body) if kind == "while" else A.Do(body, cond)
        return A.Block([init, loop]) if False else _Seq([init, loop])

    # ------------------------------------------------------------ program
    def program(self, helper=False):
        r = self.r
        env = {}
        params = []
        for name in (("x", "y", "z") if helper else ("a", "b", "c"))[: r.randint(1, 3)]:
            t = r.choice(["int", "int", "float"])
            params.append((t, name))
            env[name] = (t, False)
        if helper:
            pass
        elif r.random() < 0.8:
            params.append(("int", "n"))
            env["n"] = ("int", True)
            self.bounds["n"] = (0, self.nmax)
        if not helper and r.random() < 0.4:
            params.append(("int", "k"))
            env["k"] = ("int", True)
        globals_ = []
        if not helper and r.random() < 0.4:
            globals_.append(("int", "g1"))
            env["g1"] = ("int", False)
            self.tags.add("global")
        if not helper and r.random() < 0.25:
            globals_.append(("float", "g2"))
            env["g2"] = ("float", False)
            self.tags.add("global")
        body = []
        if r.random() < 0.45:
            t = r.choice(["int", "int", "float"])
            dims = (max(self.nmax, 2),) if r.random() < 0.7 else (2, max(self.nmax, 2))
            body.append(A.Decl(("arr", t, dims), "arr"))
            env["arr"] = (("arr", t, dims), False)
            self.tags.add("array")
            if len(dims) == 2:
                self.tags.add("array2d")
        if not helper and r.random() < 0.25:
            st = A.Struct("S", [("int", "i"), ("float", "f")])
            self.structs.append(st)
            body.append(A.Decl(("struct", "S"), "s"))
            env["s"] = (("struct", "S"), False)
            self.tags.add("struct")
        self.ret = r.choice(["int", "int", "float"])
        body.append(A.Decl(self.ret, "res", self.expr(env, self.rhs_type(self.ret) if self.ret == "float" else "int", 1)))
        env["res"] = (self.ret, False)
        body += self.stmts(env, 4, 0, False)
        fin = self.expr(env, self.ret, 2)
        body.append(A.Return(A.Bin("+", A.Var("res"), fin) if self.ret == "int" or True else fin))
        body = _flatten(body)
        f = A.Func("f", params, self.ret, A.Block(body))
        return A.Program([f], globals_, self.structs)


class _Seq(A.Node):
    """two statements that must be spliced into the enclosing statement list"""
    __slots__ = ("stmts",)

    def __init__(self, stmts):
        self.stmts = stmts


def _flatten(stmts):
    out = []
    for s in stmts:
        if isinstance(s, _Seq):
            out.extend(_flatten(s.stmts))
            continue
        _flatten_in(s)
        out.append(s)
    return out


def _flatten_in(s):
    if isinstance(s, A.Block):
        s.stmts = _flatten(s.stmts)
    elif isinstance(s, A.If):
        for attr in ("then", "els"):
            b = getattr(s, attr)
            if isinstance(b, _Seq):
                setattr(s, attr, A.Block(_flatten(b.stmts)))
            elif b is not None:
                _flatten_in(b)
    elif isinstance(s, (A.For, A.While, A.Do)):
        _flatten_in(s.body)


def fix_returns(prog):
    """the final return adds `res`: when the function is float but the tail is int (or vice versa) keep types consistent"""
    return prog


def in_domain_somewhere(item, rnd, tries=12):
    """drop members whose every run leaves the domain (e.g. a constant zero divisor): they would be vacuous"""
    from ..nslref.interp import Interp, OutOfDomain
    from .. import symx
    f = item.prog.func(item.fname)[0]
    for _ in range(tries):
        def val(t, n):
            if n in item.bounds and t == "int":
                return rnd.randint(*item.bounds[n])
            if t in ("int", "uint"):
                return rnd.randint(0 if t == "uint" else -5, 5)
            if t == "float":
                return rnd.choice([-1.5, 0.0, 0.5, 2.0, 3.25])
            if A.is_vec(t):
                return [val(A.comp_of(t), None) for _ in range(A.vec_n(t))]
            if A.is_mat(t):
                return [[val("float", None) for _ in range(A.mat_n(t))] for _ in range(A.mat_n(t))]
            if A.is_arr(t):
                def build(dims):
                    return val(t[1], None) if not dims else [build(dims[1:]) for _ in range(dims[0])]
                return build(list(t[2]))
            raise ValueError(t)
        args = {n: val(t, n) for t, n in f.params}
        gl = {n: val(t, n) for t, n in item.prog.globals}
        try:
            Interp(item.prog, gl, max_steps=3000).invoke(item.fname, args)
            return True
        except (OutOfDomain, symx.Abort, ZeroDivisionError):
            continue
    return False


def generate(seed, count, depth=3, nmax=3):
    out = []
    idx = 0
    while len(out) < count:
        rnd = random.Random(f"f1/{seed}/{idx}")
        idx += 1
        g = Gen(rnd, depth, nmax)
        try:
            prog = g.program()
            src = prog.src()
        except (ValueError, AssertionError):
            continue
        it = Item(prog, "f", g.tags | {"random"}, f"f1#{seed}/{idx - 1}", dict(g.bounds))
        it.small = has_nonlinear(prog)
        if not in_domain_somewhere(it, rnd):
            continue
        out.append(it)
    return out
