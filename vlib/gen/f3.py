"""Family F3: call graphs.  Templates cover every read position of a caller's parameter / local
after a call, callee writes to its own parameters (same index, other index, more or fewer
parameters than the caller), nested / repeated / sequential calls, direct and mutual recursion,
overloads by int/float and by vector size, vector and matrix arguments modified in the callee,
void callees, globals written by callees, argument conversions.  A random part adds helper
functions with F1 bodies called from F1 entry functions."""
import random
import itertools
from . import Item, from_text, has_nonlinear
from . import f1
from ..nslref import ast as A


def _t(text, name, tags=(), bounds=None, small=None, fname="f"):
    it = from_text(text, fname, set(tags) | {"call"}, name, bounds)
    it.small = has_nonlinear(it.prog) if small is None else small
    return it


CALLEES = {
    # name: (signature, body) -- every callee clobbers its own parameters
    "same": ("int x", "x = x + 1000; return x;"),
    "two": ("int x, int y", "x = x * 3; y = 0 - 7; return x + y;"),
    "three": ("int x, int y, int z", "z = x; y = z + 5; x = 0 - 9; return x + y + z;"),
    "local": ("int x", "int a = x + 1; int b = a * 2; x = b; return a + b;"),
    "loop": ("int x", "int s = 0; for (int i = 0; i < 2; ++i) { s += x; x = x + 1; } return s;"),
    "affix": ("int x", "x++; ++x; return x--;"),
}


def read_positions():
    out = []
    for cname, (sig, body) in CALLEES.items():
        nargs = sig.count(",") + 1
        callee = f"function g({sig}) -> int {{ {body} }}\n"
        for order in ("before", "after"):
            def prog(entry):
                return (callee + entry) if order == "before" else (entry + "\n" + callee)
            argsets = {1: ["b", "a", "a + b"], 2: ["b, a", "a, a", "b, c"], 3: ["c, b, a", "a, b, c"]}[nargs]
            for args in argsets:
                tag = f"{cname}/{order}/({args})"
                out.append(_t(prog(f"export function f(int a, int b, int c) -> int {{ int r = g({args}); return r * 1000 + a * 100 + b * 10 + c; }}"), f"read next stmt {tag}", ["read-after"], small=True))
                out.append(_t(prog(f"export function f(int a, int b, int c) -> int {{ return g({args}) * 1000 + a * 100 + b * 10 + c; }}"), f"read same expr right {tag}", ["read-after"], small=True))
                out.append(_t(prog(f"export function f(int a, int b, int c) -> int {{ return a * 100 + b * 10 + c + g({args}) * 1000; }}"), f"read same expr left {tag}", ["read-after"], small=True))
                out.append(_t(prog(f"export function f(int a, int b, int c) -> int {{ int l = a + 1; int m = b + 2; int r = g({args}); return r * 1000 + l * 100 + m * 10 + c; }}"), f"locals kept {tag}", ["read-after"], small=True))
                out.append(_t(prog(f"export function f(int a, int b, int c) -> int {{ a = a + 1; int r = g({args}); a = a + b; return r * 1000 + a; }}"), f"param written around {tag}", ["read-after"], small=True))
            args = argsets[0]
            out.append(_t(prog(f"export function f(int a, int b, int c, int n) -> int {{ int s = 0; for (int i = 0; i < n; ++i) {{ s += g({args}) + a; }} return s * 10 + b + c; }}"),
                          f"call in loop {cname}/{order}", ["read-after", "loop"], {"n": (0, 3)}, small=True))
            out.append(_t(prog(f"export function f(int a, int b, int c) -> int {{ if (g({args}) > a) return b; return c; }}"), f"call in condition {cname}/{order}", ["read-after"], small=True))
    # caller with fewer / more parameters than the callee
    out.append(_t("function g(int x, int y, int z) -> int { x = 1; y = 2; z = 3; return 0; }\nexport function f(int a) -> int { int r = g(a, a, a); return a + r; }", "caller fewer params", ["read-after"]))
    out.append(_t("function g(int x) -> int { x = 77; return 0; }\nexport function f(int a, int b, int c) -> int { int r = g(c); return a * 100 + b * 10 + c + r; }", "caller more params", ["read-after"], small=True))
    out.append(_t("function g() -> int { return 5; }\nexport function f(int a, int b) -> int { int r = g(); return a * 100 + b * 10 + r; }", "callee no params", ["read-after"], small=True))
    out.append(_t("function g(float x) -> float { x = x * 2.0; return x; }\nexport function f(float a, int b) -> float { float r = g(b); return r + a * 10.0 + b; }", "conversion at call", ["read-after", "float"], small=True))
    out.append(_t("function g(float x, int y) -> float { x = x + y; y = 0; return x; }\nexport function f(int a, float b) -> float { return g(a, a) + g(b, a) + a + b; }", "mixed conversions", ["float"], small=True))
    return out


def shapes():
    out = []
    out.append(_t("function h(int x) -> int { x = x + 1; return x * 2; }\nfunction g(int x) -> int { int r = h(x); x = x - 1; return r + x; }\nexport function f(int a, int b) -> int { return g(a) * 100 + g(b) * 10 + a + b; }", "nested two levels", ["nested"], small=True))
    out.append(_t("function g(int x) -> int { x = x + 1; return x; }\nexport function f(int a) -> int { return g(g(g(a))) * 10 + a; }", "call as argument", ["nested"], small=True))
    out.append(_t("function g(int x, int y) -> int { x = x - y; return x; }\nexport function f(int a, int b) -> int { return g(g(a, b), g(b, a)) * 10 + a - b; }", "calls as both arguments", ["nested"], small=True))
    out.append(_t("function g(int x) -> int { x = x + 1; return x; }\nexport function f(int a, int b) -> int { int r = g(a); int s = g(b); int t = g(r); return r + s * 10 + t * 100 + a * 1000 + b * 10000; }", "sequential", ["sequential"], small=True))
    out.append(_t("function fact(int k) -> int { if (k <= 1) return 1; return k * fact(k - 1); }\nexport function f(int n, int a) -> int { return fact(n) * 10 + a; }", "direct recursion", ["recursion"], {"n": (0, 4)}, small=True))
    out.append(_t("function sum(int k, int acc) -> int { if (k == 0) return acc; acc = acc + k; k = k - 1; return sum(k, acc) + 0 * k; }\nexport function f(int n, int a) -> int { return sum(n, a) + n; }", "recursion writes params", ["recursion"], {"n": (0, 3)}, small=True))
    out.append(_t("function fib(int k) -> int { if (k < 2) return k; int l = fib(k - 1); int r = fib(k - 2); return l + r + 0 * k; }\nexport function f(int n) -> int { return fib(n) * 10 + n; }", "tree recursion reads param after calls", ["recursion"], {"n": (0, 4)}))
    out.append(_t("function fib(int k) -> int { if (k < 2) return k; return fib(k - 1) + fib(k - 2) + k; }\nexport function f(int n) -> int { return fib(n); }", "tree recursion same expr", ["recursion"], {"n": (0, 4)}))
    out.append(_t("function odd(int k) -> int { if (k == 0) return 0; k = k - 1; return even(k); }\nfunction even(int k) -> int { if (k == 0) return 1; k = k - 1; return odd(k); }\nexport function f(int n) -> int { return even(n) * 10 + odd(n) + n * 100; }", "mutual recursion", ["recursion"], {"n": (0, 4)}, small=True))
    out.append(_t("function down(int k, int d) -> int { if (k <= 0) return d; int r = down(k - 1, d + 1); return r * 10 + k + d; }\nexport function f(int n, int a) -> int { return down(n, a); }", "recursion locals per activation", ["recursion"], {"n": (0, 3), "a": (0, 3)}))
    # mutual recursion: the caller's parameters and locals are read after the other function returned (the frames of A, B, A, ... are all live),
    # in both definition orders, entered through either function
    PING = "function ping(int k, int d) -> int { if (k <= 0) return d; int r = pong(k - 1, d + 1); return r * 2 + k + d; }\n"
    PONG = "function pong(int k, int d) -> int { if (k <= 0) return 0 - d; int r = ping(k - 1, d + 2); k = k + r; return k - d; }\n"
    for order, nm in ((PING + PONG, "ping first"), (PONG + PING, "pong first")):
        out.append(_t(order + "export function f(int n, int a) -> int { return ping(n, a) * 3 + n; }", f"mutual recursion, live frames, {nm}, enter ping", ["recursion", "mutual"], {"n": (0, 4)}, small=True))
        out.append(_t(order + "export function f(int n, int a) -> int { int x = pong(n, a); int y = ping(n, x); return x * 7 + y; }", f"mutual recursion, live frames, {nm}, enter both", ["recursion", "mutual"], {"n": (0, 3)}, small=True))
    out.append(_t("function a3(int k) -> int { if (k <= 0) return 1; int r = b3(k - 1); return r + k; }\nfunction b3(int k) -> int { if (k <= 0) return 2; int r = c3(k - 1); return r * 2 + k; }\n"
                  "function c3(int k) -> int { if (k <= 0) return 3; int r = a3(k - 1); return r - k; }\nexport function f(int n) -> int { return a3(n) * 100 + b3(n) * 10 + c3(n); }",
                  "cycle of three functions, live frames", ["recursion", "mutual"], {"n": (0, 4)}, small=True))
    # ... with effects on and reads of global state: every call runs its callee again, whatever was computed for the same arguments before
    EVEN = "int steps;\nint bias;\nfunction isEven(int k) -> int { if (k == 0) return 1; int r = isOdd(k - 1); steps = steps + 1; return r; }\nfunction isOdd(int k) -> int { if (k == 0) return 0; return isEven(k - 1); }\n"
    out.append(_t(EVEN + "export function f(int n) -> int { int a = isEven(n); int b = isEven(n); return (a + b) * 100 + steps; }", "mutual recursion counts steps, same call twice", ["recursion", "mutual", "global"], {"n": (0, 4)}, small=True))
    out.append(_t(EVEN + "export function f(int n) -> int { int a = isOdd(n); int b = isOdd(n); int c = isEven(n); return a * 1000 + b * 100 + c * 10 + steps; }", "mutual recursion counts steps, enter through the other function", ["recursion", "mutual", "global"], {"n": (0, 4)}, small=True))
    UP = "int bias;\nfunction up(int k) -> int { if (k < 1) return 0; int r = over(k - 1); return r + bias; }\nfunction over(int k) -> int { if (k < 1) return 0; return up(k - 1) + 1; }\n"
    out.append(_t(UP + "export function f(int n, int a) -> int { bias = a; int x = up(n); bias = bias + 10; int y = up(n); return (y - x) * 100 + over(n); }", "mutual recursion reads a global that changes between two identical calls", ["recursion", "mutual", "global"], {"n": (0, 4)}, small=True))
    out.append(_t("int g1;\nfunction twice(int x) -> int { return x * 2; }\nfunction bumped(int x) -> int { g1 = g1 + 1; return twice(x) + g1; }\nexport function f(int a) -> int { int r = bumped(a); int s = bumped(a); int t = twice(a); int u = twice(a); return r * 1000 + s * 100 + t * 10 + u + g1; }",
                  "same call repeated, impure through a global and pure", ["sequential", "global"], small=True))
    out.append(_t("int g1;\nfunction bump(int x) -> int { g1 = g1 + x; x = 0; return g1; }\nexport function f(int a, int b) -> int { int r = bump(a); int s = bump(b); return r * 100 + s * 10 + g1 + a + b; }", "callee writes global", ["global"], small=True))
    out.append(_t("int g1;\nfunction set(int x) -> void { g1 = x; x = 0; }\nexport function f(int a, int b) -> int { set(a + b); return g1 * 10 + a; }", "void callee", ["void", "global"], small=True))
    out.append(_t("int g1;\nfunction set(int x) -> void { if (x > 0) { g1 = x; return; } g1 = 0 - x; }\nexport function f(int a) -> int { set(a); return g1 + a; }", "void callee early return", ["void", "global"]))
    out.append(_t("export function h(int x) -> int { x = x * 2; return x; }\nexport function f(int a) -> int { return h(a) + a; }", "call exported helper", ["exported"]))
    out.append(_t("function h(int x) -> int { x = x * 2; return x; }\nexport function f(int a) -> int { int x = a + 1; int r = h(x); return r * 10 + x; }", "same local name in caller", ["names"], small=True))
    out.append(_t("function h(int a) -> int { a = a * 2; return a; }\nexport function f(int a) -> int { int r = h(a + 1); return r * 10 + a; }", "same param name", ["names"], small=True))
    out.append(_t("function h(int a) -> int { int t = a; t += 3; return t; }\nexport function f(int a) -> int { int t = 9; int r = h(a); return r * 10 + t; }", "same local name in callee", ["names"], small=True))
    # loops with break / continue in several functions of one module, and several loops in one function
    for kw in ("break", "continue"):
        out.append(_t(f"function cnt(int m, int a) -> int {{ int s = 0; for (int i = 0; i < m; ++i) {{ if (i == a) {kw}; s += 1; }} return s; }}\n"
                      f"export function f(int n, int a, int b) -> int {{ int s = 0; int i = 0; while (i < n) {{ i = i + 1; if (i == b) {kw}; s += cnt(n, a); }} return s; }}",
                      f"loops with {kw} in caller and callee", ["loop", "jump"], {"n": (0, 3)}))
        out.append(_t(f"export function f(int n, int a, int b) -> int {{ int s = 0; for (int i = 0; i < n; ++i) {{ if (i == a) {kw}; s += 1; }} for (int j = 0; j < n; ++j) {{ if (j == b) {kw}; s += 10; }} "
                      f"int k = 0; do {{ k++; if (k == a) {kw}; s += 100; }} while (k < n) return s; }}", f"three loops in sequence with {kw}", ["loop", "jump"], {"n": (0, 3)}))
        out.append(_t(f"function first(int m, int a) -> int {{ int s = 0; int i = 0; do {{ i++; if (i == a) {kw}; s += i; }} while (i < m) return s; }}\n"
                      f"function second(int m, int a) -> int {{ int s = 0; for (int i = 0; i < m; ++i) {{ if (i == a) {kw}; s += 2; }} return s; }}\n"
                      f"export function f(int n, int a) -> int {{ return first(n, a) * 100 + second(n, a); }}", f"{kw} in two helper functions", ["loop", "jump"], {"n": (0, 3)}))
    return out


def overloads():
    out = []
    out.append(_t("function g(int x) -> int { return x + 1000; }\nfunction g(float x) -> float { return x + 2000.0; }\nexport function f(int a, float b) -> float { return g(a) + g(b); }", "overload int/float", ["overload"]))
    out.append(_t("function g(float x) -> float { return x + 2000.0; }\nfunction g(int x) -> int { return x + 1000; }\nexport function f(int a, float b) -> float { return g(a) * 3.0 + g(b); }", "overload float/int order", ["overload"]))
    out.append(_t("function g(int x, float y) -> float { return x + y + 1000.0; }\nfunction g(float x, int y) -> float { return x + y + 2000.0; }\nfunction g(int x, int y) -> float { return x + y + 3000.0; }\nexport function f(int a, float b) -> float { return g(a, b) + g(b, a) * 2.0 + g(a, a) * 4.0; }", "overload pairs", ["overload"], small=True))
    out.append(_t("function g(float2 v) -> float { return v.x + v.y + 1000.0; }\nfunction g(float3 v) -> float { return v.x + v.y + v.z + 2000.0; }\nexport function f(float2 a, float3 b) -> float { return g(a) + g(b) * 2.0; }", "overload by vector size", ["overload", "vector"]))
    out.append(_t("function g(float x) -> float { return x + 1000.0; }\nfunction g(float2 v) -> float { return v.x + v.y + 2000.0; }\nexport function f(float a, float2 b) -> float { return g(a) + g(b) * 2.0; }", "overload scalar/vector", ["overload", "vector"]))
    out.append(_t("function g(int x) -> int { return h(x) + 1; }\nfunction h(int x) -> int { return x * 2; }\nfunction h(float x) -> float { return x * 3.0; }\nexport function f(int a) -> int { return g(a); }", "overload chosen inside helper", ["overload"]))
    return out


def by_value_aggregates():
    out = []
    # vectors
    for t, n in (("float2", 2), ("float3", 3), ("float4", 4), ("int3", 3)):
        comp = t[:-1]
        zero = "0" if comp == "int" else "0.0"
        one = "7" if comp == "int" else "7.0"
        ret = comp
        s = " + ".join(f"v.{c}" for c in "xyzw"[:n])
        reads = " + ".join(f"a.{c} * {10 ** i}" + ("" if comp == "int" else ".0") for i, c in enumerate("xyzw"[:n]))
        for wname, write in (("plain", f"v = {t}({', '.join([one] * n)});"), ("element", f"v[1] = {one};"), ("swizzle", f"v.yx = {comp}2({one}, {one});" if n >= 2 else ""),
                             ("component", f"v.x = {one};"), ("dyn element", f"v[k] = {one};"), ("compound", f"v = v + v;")):
            kparam = ", int k" if "k" in write.split("=")[0] else ""
            kb = {"k": (0, n - 1)} if kparam else None
            karg = ", k" if kparam else ""
            out.append(_t(f"function g({t} v{kparam}) -> {ret} {{ {write} return {s}; }}\nexport function f({t} a{kparam}) -> {ret} {{ {ret} r = g(a{karg}); return r * {'100000' if comp == 'int' else '100000.0'} + {reads}; }}",
                          f"vector arg {t} {wname}", ["vector", "byvalue"], kb, small=True))
            out.append(_t(f"function g({t} v{kparam}) -> {ret} {{ {write} return {s}; }}\nexport function f({t} a{kparam}) -> {t} {{ {t} l = a; {ret} r = g(l{karg}); return l; }}",
                          f"vector local {t} {wname}", ["vector", "byvalue"], kb))
    # matrices
    for t, n in (("float3x3", 3), ("float4x4", 4)):
        row = f"float{n}"
        for wname, write in (("row", f"m[1] = {row}({', '.join(['7.0'] * n)});"), ("element", "m[1][2] = 7.0;"), ("dyn", "m[k][0] = 7.0;"), ("plain", "m = m + m;"), ("scale", "m = m * 2.0;")):
            kparam = ", int k" if "k" in write.split("=")[0] else ""
            kb = {"k": (0, n - 1)} if kparam else None
            karg = ", k" if kparam else ""
            out.append(_t(f"function g({t} m{kparam}) -> float {{ {write} return m[1][2] + m[0][0]; }}\nexport function f({t} a{kparam}) -> {t} {{ float r = g(a{karg}); return a; }}",
                          f"matrix arg {t} {wname}", ["matrix", "byvalue"], kb))
            out.append(_t(f"function g({t} m{kparam}) -> float {{ {write} return m[1][2] + m[0][0]; }}\nexport function f({t} a{kparam}) -> float {{ {t} l = a; float r = g(l{karg}); return r * 100.0 + l[1][2] + l[0][0] * 10.0 + l[1][0]; }}",
                          f"matrix local {t} {wname}", ["matrix", "byvalue"], kb))
    # returned aggregates are independent of the callee's variable
    out.append(_t("function mk(float a) -> float3 { float3 v = float3(a, a, a); v.y = 1.0; return v; }\nexport function f(float a) -> float3 { float3 p = mk(a); float3 q = mk(a + 1.0); p.x = 5.0; return p + q; }", "returned vectors independent", ["vector", "byvalue"]))
    return out


class Gen3(f1.Gen):
    """F1 generator whose atoms may call helper functions"""

    def __init__(self, rnd, depth, nmax, helpers):
        super().__init__(rnd, depth, nmax)
        self.helpers = helpers      # list of (name, [param types], ret)
        self.ncalls = 0

    def atom(self, env, t):
        cands = [h for h in self.helpers if h[2] == t or (t == "float" and h[2] == "int")]
        if cands and self.ncalls < 4 and self.r.random() < 0.3:
            name, pts, ret = self.r.choice(cands)
            self.ncalls += 1
            args = []
            for pt in pts:
                at = pt if pt == "int" else self.r.choice(["float", "int"])
                args.append(super().atom(env, at) if self.r.random() < 0.6 else self.expr(env, at, 1))
            return A.Call(name, args)
        return super().atom(env, t)


def random_calls(seed, count, depth=2, nmax=3):
    out = []
    idx = 0
    while len(out) < count:
        rnd = random.Random(f"f3/{seed}/{idx}")
        idx += 1
        helpers, funcs, structs = [], [], []
        try:
            for hi in range(rnd.randint(1, 2)):
                g = Gen3(rnd, depth, nmax, list(helpers))
                g.counter = 100 * (hi + 1)
                p = g.program(helper=True)
                hf = p.funcs[0]
                hf.name = f"h{hi}"
                hf.exported = False
                funcs.append(hf)
                helpers.append((hf.name, [t for t, _ in hf.params], hf.ret))
            if not helpers:
                continue
            g = Gen3(rnd, depth, nmax, helpers)
            p = g.program()
            if g.ncalls == 0:
                continue
            prog = A.Program(funcs + p.funcs if rnd.random() < 0.5 else p.funcs + funcs, p.globals, p.structs)
            prog.src()
        except (ValueError, AssertionError):
            continue
        it = Item(prog, "f", g.tags | {"random", "call"}, f"f3#{seed}/{idx - 1}", dict(g.bounds))
        it.small = True
        if not f1.in_domain_somewhere(it, rnd):
            continue
        out.append(it)
    return out


def all_templates():
    return read_positions() + shapes() + overloads() + by_value_aggregates()
