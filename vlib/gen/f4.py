"""Family F4: vectors and matrices as values.  Generated exhaustively from tables:
constructors in every split, component-wise operators, scaling, matrix product, row / element
selection, every swizzle read mask, every non-repeating swizzle write mask, element and row
writes with constant and dynamic index, copies followed by writes."""
import itertools
from . import Item, from_text

SETS = ("xyzw", "rgba")
CMP = ["<", "<=", ">", ">=", "==", "!="]


def _t(text, name, tags=(), bounds=None, small=False):
    it = from_text(text, "f", set(tags) | {"vecmat"}, name, bounds)
    it.small = small
    return it


def vt(comp, n):
    return comp if n == 1 else f"{comp}{n}"


def lit(comp, k):
    return str(k) if comp != "float" else f"{k}.0"


def compositions(n, maxpart):
    """ordered splits of n into parts of size 1..maxpart"""
    if n == 0:
        yield ()
        return
    for p in range(1, min(n, maxpart) + 1):
        for rest in compositions(n - p, maxpart):
            yield (p,) + rest


def constructors(tier):
    out = []
    for comp in ("float", "int"):
        for n in (2, 3, 4):
            T = vt(comp, n)
            for parts in compositions(n, n - 1):
                for argcomp in ((comp,) if tier == "quick" and parts != (1,) * n else ("float", "int")):
                    if argcomp == "float" and comp == "int":
                        continue        # float -> int narrowing is outside O1
                    params = ", ".join(f"{vt(argcomp, p)} p{i}" for i, p in enumerate(parts))
                    args = ", ".join(f"p{i}" for i in range(len(parts)))
                    out.append(_t(f"export function f({params}) -> {T} {{ return {T}({args}); }}", f"construct {T} from {parts} of {argcomp}", ["construct"]))
            # literals and expressions as arguments
            out.append(_t(f"export function f({comp} a) -> {T} {{ return {T}({', '.join(['a + ' + lit(comp, i) for i in range(n)])}); }}", f"construct {T} exprs", ["construct"]))
            out.append(_t(f"export function f({comp} a) -> {T} {{ {T} v = {T}({', '.join([lit(comp, i + 1) for i in range(n)])}); v[0] = a; return v; }}", f"construct {T} literals", ["construct"]))
    for n in (3, 4):
        M = f"float{n}x{n}"
        R = f"float{n}"
        params = ", ".join(f"{R} r{i}" for i in range(n))
        out.append(_t(f"export function f({params}) -> {M} {{ return {M}({', '.join(f'r{i}' for i in range(n))}); }}", f"construct {M} rows", ["construct", "matrix"]))
        rows = ", ".join(f"{R}({', '.join(['a + ' + lit('float', i * n + j) for j in range(n)])})" for i in range(n))
        out.append(_t(f"export function f(float a) -> {M} {{ return {M}({rows}); }}", f"construct {M} nested", ["construct", "matrix"]))
        out.append(_t(f"export function f({M} m) -> {M} {{ return {M}({', '.join(f'm[{n - 1 - i}]' for i in range(n))}); }}", f"construct {M} from rows reversed", ["construct", "matrix"]))
    return out


def constructed_access(tier):
    """a component / row / swizzle of a value that was just constructed (through a variable, so that an optimiser may look through the
    store): which argument a component comes from depends on the split"""
    out = []
    for comp in ("float", "int"):
        for n in (2, 3, 4):
            T = vt(comp, n)
            for parts in compositions(n, n - 1):
                if len(parts) == n and tier == "quick" and n == 4 and comp == "int":
                    continue
                params = ", ".join(f"{vt(comp, p)} p{i}" for i, p in enumerate(parts))
                args = ", ".join(f"p{i}" for i in range(len(parts)))
                ks = range(n) if (tier != "quick" or len(parts) < n) else (0, n - 1)
                for k in ks:
                    out.append(_t(f"export function f({params}) -> {comp} {{ {T} t = {T}({args}); return t[{k}]; }}", f"construct {T} from {parts}, element {k}", ["construct", "select"]))
                out.append(_t(f"export function f({params}) -> {comp} {{ {T} t = {T}({args}); return t.{'xyzw'[n - 1]} + t.x; }}", f"construct {T} from {parts}, swizzle", ["construct", "select"]))
                out.append(_t(f"export function f({params}, int i) -> {comp} {{ {T} t = {T}({args}); return t[i]; }}", f"construct {T} from {parts}, dynamic element", ["construct", "select"],
                              bounds={"i": (0, n - 1)}))
    for n in (3, 4):
        M, R = f"float{n}x{n}", f"float{n}"
        params = ", ".join(f"{R} r{i}" for i in range(n))
        rows = ", ".join(f"r{i}" for i in range(n))
        for k in range(n):
            out.append(_t(f"export function f({params}) -> {R} {{ {M} m = {M}({rows}); return m[{k}]; }}", f"construct {M}, row {k}", ["construct", "select", "matrix"]))
            out.append(_t(f"export function f({params}) -> float {{ {M} m = {M}({rows}); return m[{k}][{(k + 1) % n}]; }}", f"construct {M}, element {k},{(k + 1) % n}", ["construct", "select", "matrix"]))
        # rows that are themselves constructed from mixed parts
        out.append(_t(f"export function f(float2 a, float b, {R} c) -> float {{ {M} m = {M}({', '.join([R + '(a, ' + ', '.join(['b'] * (n - 2)) + ')'] + ['c'] * (n - 1))}); return m[0][1] + m[0][{n - 1}] * 2.0 + m[1][0]; }}",
                      f"construct {M} from mixed rows, elements", ["construct", "select", "matrix"]))
    return out


def modules(tier, seed=0):
    """several members of the tables in ONE module (renamed f0, f1, ...), each of them once as the entry point: what is compiled for a
    function must not depend on the functions compiled before it"""
    import random
    from ..nslref import ast as A
    rnd = random.Random(f"f4-modules/{seed}")
    pool = [it for it in constructors(tier) + operators(tier) + selection(tier) + element_writes(tier) + constructed_access(tier)
            if len(it.prog.funcs) == 1 and not it.prog.globals and not it.prog.structs]
    mats = [it for it in pool if "matrix" in it.tags]
    out = []
    for gi in range(12 if tier == "quick" else 80):
        k = rnd.choice((2, 3, 4))
        group = rnd.sample(mats, min(2, k)) + rnd.sample(pool, max(0, k - 2)) if gi % 2 == 0 else rnd.sample(pool, k)
        rnd.shuffle(group)
        funcs = []
        for i, it in enumerate(group):
            f = it.prog.funcs[0]
            funcs.append(A.Func(f"f{i}", f.params, f.ret, f.body, exported=True))
        for i, it in enumerate(group):
            if i == 0 and gi % 3:
                continue                    # the first function of a module is what the single-function members already check
            prog = A.Program(list(funcs), [], [])
            m = Item(prog, f"f{i}", set(it.tags) | {"module"}, f"module {gi} [{'; '.join(g.name for g in group)}] entry f{i}", dict(it.bounds), it.small)
            out.append(m)
    return out


def operators(tier):
    out = []
    for comp in ("float", "int"):
        for n in (2, 3, 4):
            T = vt(comp, n)
            I = vt("int", n)
            for op in ("+", "-"):
                out.append(_t(f"export function f({T} a, {T} b) -> {T} {{ return a {op} b; }}", f"{T} {op} {T}", ["op"]))
                out.append(_t(f"export function f({T} a, {T} b, {T} c) -> {T} {{ return a {op} b {op} c; }}", f"{T} {op} chain", ["op"]))
            for op in CMP:
                out.append(_t(f"export function f({T} a, {T} b) -> {I} {{ return a {op} b; }}", f"{T} {op} {T}", ["op", "cmp"]))
            for op in ("*", "/"):
                out.append(_t(f"export function f({T} a, {comp} s) -> {T} {{ return a {op} s; }}", f"{T} {op} {comp}", ["op", "scale"], small=True))
                out.append(_t(f"export function f({T} a) -> {T} {{ return a {op} {lit(comp, 3)}; }}", f"{T} {op} literal", ["op", "scale"]))
            out.append(_t(f"export function f({comp} s, {T} a) -> {T} {{ return s * a; }}", f"{comp} * {T}", ["op", "scale"], small=True))
            # component-wise %, && and || (a finding of C05/C09 until repaired in /repo: 62bf75b); float % is outside O1
            for op in ("&&", "||"):
                out.append(_t(f"export function f({T} a, {T} b) -> {T} {{ return a {op} b; }}", f"{T} {op} {T}", ["op", "logic"], small=True))
            if comp == "int":
                out.append(_t(f"export function f({T} a, {T} b) -> {T} {{ return a % b; }}", f"{T} % {T}", ["op", "mod"], small=True))
                out.append(_t(f"export function f({T} a, {T} b, {T} c) -> {T} {{ return (a % b + c) && (a || b); }}", f"{T} % && || expression", ["op", "mod", "logic"], small=True))
            out.append(_t(f"export function f({T} a, {T} b, {comp} s) -> {T} {{ return (a + b) * s - a; }}", f"{T} mixed expression", ["op"], small=True))
        # mixed component types promote
    for n in (2, 3, 4):
        out.append(_t(f"export function f(float{n} a, int{n} b) -> float{n} {{ return a + b; }}", f"float{n} + int{n}", ["op", "promote"]))
        out.append(_t(f"export function f(int{n} a, float s) -> float{n} {{ return a * s; }}", f"int{n} * float", ["op", "promote", "scale"], small=True))
        out.append(_t(f"export function f(float{n} a, int s) -> float{n} {{ return a / s; }}", f"float{n} / int", ["op", "promote", "scale"], small=True))
        out.append(_t(f"export function f(int{n} a, float s) -> float{n} {{ return a / s; }}", f"int{n} / float", ["op", "promote", "scale"], small=True))
        out.append(_t(f"export function f(int{n} a) -> float{n} {{ return a / 2.0; }}", f"int{n} / float literal", ["op", "promote", "scale"]))
        out.append(_t(f"export function f(float s, int{n} a) -> float{n} {{ return s * a; }}", f"float * int{n}", ["op", "promote", "scale"], small=True))
        out.append(_t(f"export function f(int{n} a, float{n} b) -> float{n} {{ return a - b; }}", f"int{n} - float{n}", ["op", "promote"]))
    for n in (3, 4):
        M = f"float{n}x{n}"
        for op in ("+", "-"):
            out.append(_t(f"export function f({M} a, {M} b) -> {M} {{ return a {op} b; }}", f"{M} {op} {M}", ["op", "matrix"]))
        for op in ("*", "/"):
            out.append(_t(f"export function f({M} a, float s) -> {M} {{ return a {op} s; }}", f"{M} {op} float", ["op", "matrix", "scale"], small=True))
            out.append(_t(f"export function f({M} a, int s) -> {M} {{ return a {op} s; }}", f"{M} {op} int", ["op", "matrix", "scale", "promote"], small=True))
        for op in ("&&", "||"):
            out.append(_t(f"export function f({M} a, {M} b) -> {M} {{ return a {op} b; }}", f"{M} {op} {M}", ["op", "matrix", "logic"], small=True))
        out.append(_t(f"export function f({M} a, {M} b) -> {M} {{ return a * b; }}", f"{M} * {M}", ["op", "matrix", "product"], small=True))
        out.append(_t(f"export function f({M} a, {M} b, {M} c) -> {M} {{ return a * b + c; }}", f"{M} * {M} + {M}", ["op", "matrix", "product"], small=True))
        out.append(_t(f"export function f({M} a, float s) -> {M} {{ {M} b = a * s; return b * a; }}", f"{M} scaled product", ["op", "matrix", "product"], small=True))
    # matrix * vector and scalar * matrix (both were findings of C04/C05/C09 until repaired in /repo: cdfd45b, c2ea643)
    for n in (3, 4):
        M = f"float{n}x{n}"
        out.append(_t(f"export function f({M} m, float{n} v) -> float{n} {{ return m * v; }}", f"{M} * float{n}", ["op", "matrix", "product"], small=True))
        out.append(_t(f"export function f(float s, {M} m) -> {M} {{ return s * m; }}", f"float * {M}", ["op", "matrix", "scale"], small=True))
        out.append(_t(f"export function f(int s, {M} m) -> {M} {{ return s * m; }}", f"int * {M}", ["op", "matrix", "scale", "promote"], small=True))
        out.append(_t(f"export function f({M} m, float{n} v, float s) -> float{n} {{ return (s * m) * v + v; }}", f"(float * {M}) * float{n} + float{n}", ["op", "matrix", "product"], small=True))
    return out


def selection(tier):
    out = []
    for comp in ("float", "int"):
        for n in (2, 3, 4):
            T = vt(comp, n)
            for i in range(n):
                out.append(_t(f"export function f({T} a) -> {comp} {{ return a[{i}]; }}", f"{T}[{i}]", ["index"]))
            out.append(_t(f"export function f({T} a, int i) -> {comp} {{ return a[i]; }}", f"{T}[i]", ["index", "dynamic"], {"i": (0, n - 1)}))
            out.append(_t(f"export function f({T} a, {T} b, int i) -> {comp} {{ return a[i] + b[{n - 1}] * a[0]; }}", f"{T}[i] in expression", ["index", "dynamic"], {"i": (0, n - 1)}, small=True))
    for n in (3, 4):
        M = f"float{n}x{n}"
        R = f"float{n}"
        for i in range(n):
            out.append(_t(f"export function f({M} m) -> {R} {{ return m[{i}]; }}", f"{M}[{i}]", ["index", "matrix"]))
            for j in range(n):
                out.append(_t(f"export function f({M} m) -> float {{ return m[{i}][{j}]; }}", f"{M}[{i}][{j}]", ["index", "matrix"]))
        out.append(_t(f"export function f({M} m, int i) -> {R} {{ return m[i]; }}", f"{M}[i]", ["index", "matrix", "dynamic"], {"i": (0, n - 1)}))
        out.append(_t(f"export function f({M} m, int i, int j) -> float {{ return m[i][j]; }}", f"{M}[i][j]", ["index", "matrix", "dynamic"], {"i": (0, n - 1), "j": (0, n - 1)}))
        out.append(_t(f"export function f({M} m, int i) -> float {{ {R} r = m[i]; return r.x + r.y * 2.0 + r[{n - 1}] * 4.0; }}", f"{M} row then swizzle", ["index", "matrix", "dynamic", "swizzle"], {"i": (0, n - 1)}))
    return out


def swizzle_reads(tier):
    out = []
    for comp in ("float", "int"):
        for n in (2, 3, 4):
            T = vt(comp, n)
            for letters in SETS:
                for ln in (1, 2, 3, 4):
                    if tier == "quick" and comp == "int" and letters == "rgba" and ln > 3:
                        continue
                    for mask in itertools.product(letters[:n], repeat=ln):
                        mask = "".join(mask)
                        out.append(_t(f"export function f({T} a) -> {vt(comp, ln)} {{ return a.{mask}; }}", f"read {T}.{mask}", ["swizzle", "swizzle-read"]))
    # swizzles inside expressions, of locals, of globals, chained through a local
    for n in (3, 4):
        T = f"float{n}"
        out.append(_t(f"export function f({T} a, {T} b) -> float2 {{ return a.zx + b.yy; }}", f"swizzle sum {T}", ["swizzle", "swizzle-read"]))
        out.append(_t(f"export function f({T} a) -> float {{ float2 t = a.zy; return t.y * 10.0 + t.x; }}", f"swizzle via local {T}", ["swizzle", "swizzle-read"]))
        out.append(_t(f"export function f({T} a) -> {T} {{ {T} t = a; return t.{'zyx' if n == 3 else 'wzyx'}; }}", f"swizzle reverse {T}", ["swizzle", "swizzle-read"]))
        out.append(_t(f"{T} g;\nexport function f(float s) -> float2 {{ return g.yx * s; }}", f"swizzle of global {T}", ["swizzle", "swizzle-read", "global"], small=True))
    out.append(_t("struct S { float3 v; }\nexport function f(float3 a) -> float2 { S s; s.v = a; return s.v.zx; }", "swizzle of struct member", ["swizzle", "swizzle-read", "struct"]))
    out.append(_t("export function f(float3 a, float3 b, int i) -> float2 { float3[2] arr; arr[0] = a; arr[1] = b; return arr[i].zx; }", "swizzle of array element", ["swizzle", "swizzle-read", "array"], {"i": (0, 1)}))
    return out


def swizzle_writes(tier):
    out = []
    for comp in ("float", "int"):
        for n in (2, 3, 4):
            T = vt(comp, n)
            for letters in SETS:
                if tier == "quick" and letters == "rgba" and comp == "int":
                    continue
                for ln in range(1, n + 1):
                    for mask in itertools.permutations(letters[:n], ln):
                        mask = "".join(mask)
                        V = vt(comp, ln)
                        out.append(_t(f"export function f({T} a, {V} b) -> {T} {{ a.{mask} = b; return a; }}", f"write {T}.{mask}", ["swizzle", "swizzle-write"]))
    for n in (3, 4):
        T = f"float{n}"
        out.append(_t(f"export function f({T} a, float2 b) -> {T} {{ {T} l = a; l.zx = b; l.y = b.x; return l + a; }}", f"write local {T}", ["swizzle", "swizzle-write"]))
        out.append(_t(f"{T} g;\nexport function f(float2 b) -> {T} {{ g.yz = b; return g; }}", f"write global {T}", ["swizzle", "swizzle-write", "global"]))
        out.append(_t(f"export function f({T} a, float2 b) -> {T} {{ a.xy = b; a.yx = a.xy; return a; }}", f"write then swap {T}", ["swizzle", "swizzle-write"]))
        out.append(_t(f"export function f({T} a, float2 b) -> {T} {{ a.zy += b; return a; }}", f"compound swizzle write {T}", ["swizzle", "swizzle-write", "compound"]))
    return out


def element_writes(tier):
    out = []
    for comp in ("float", "int"):
        for n in (2, 3, 4):
            T = vt(comp, n)
            for i in range(n):
                out.append(_t(f"export function f({T} a, {comp} s) -> {T} {{ a[{i}] = s; return a; }}", f"{T}[{i}] = s", ["elem-write"]))
            out.append(_t(f"export function f({T} a, {comp} s, int i) -> {T} {{ a[i] = s; return a; }}", f"{T}[i] = s", ["elem-write", "dynamic"], {"i": (0, n - 1)}))
            out.append(_t(f"export function f({T} a, {comp} s, int i, int j) -> {T} {{ {T} l = a; l[i] = s; l[j] += s; return l; }}", f"{T} two dynamic writes", ["elem-write", "dynamic", "compound"], {"i": (0, n - 1), "j": (0, n - 1)}))
    for n in (3, 4):
        M = f"float{n}x{n}"
        R = f"float{n}"
        for i in range(n):
            out.append(_t(f"export function f({M} m, {R} r) -> {M} {{ m[{i}] = r; return m; }}", f"{M}[{i}] = row", ["elem-write", "matrix"]))
            for j in range(n):
                if tier == "quick" and (i + j) % 2:
                    continue
                out.append(_t(f"export function f({M} m, float s) -> {M} {{ m[{i}][{j}] = s; return m; }}", f"{M}[{i}][{j}] = s", ["elem-write", "matrix"]))
        out.append(_t(f"export function f({M} m, {R} r, int i) -> {M} {{ m[i] = r; return m; }}", f"{M}[i] = row", ["elem-write", "matrix", "dynamic"], {"i": (0, n - 1)}))
        out.append(_t(f"export function f({M} m, float s, int i, int j) -> {M} {{ m[i][j] = s; return m; }}", f"{M}[i][j] = s", ["elem-write", "matrix", "dynamic"], {"i": (0, n - 1), "j": (0, n - 1)}))
        out.append(_t(f"export function f(float s, int i, int j) -> {M} {{ {M} m; m[i][j] = s; m[j][i] += 1.0; return m; }}", f"{M} local default then writes", ["elem-write", "matrix", "dynamic", "default"], {"i": (0, n - 1), "j": (0, n - 1)}))
        out.append(_t(f"{M} g;\nexport function f(float s, int i, int j) -> {M} {{ g[i][j] = s; return g; }}", f"{M} global write", ["elem-write", "matrix", "dynamic", "global"], {"i": (0, n - 1), "j": (0, n - 1)}))
    return out


def copies(tier):
    out = []
    for T, comp, one in (("float3", "float", "9.0"), ("int4", "int", "9"), ("float2", "float", "9.0")):
        for wname, w in (("component", f".x = {one}"), ("index", f"[1] = {one}"), ("swizzle", f".yx = {comp}2({one}, {one})")):
            out.append(_t(f"export function f({T} a) -> {T} {{ {T} c = a; c{w}; return a; }}", f"copy {T} write copy {wname}", ["copy"]))
            out.append(_t(f"export function f({T} a) -> {T} {{ {T} c = a; a{w}; return c; }}", f"copy {T} write source {wname}", ["copy"]))
            out.append(_t(f"export function f({T} a) -> {T} {{ {T} c; c = a; c{w}; {T} d = c; d{w.replace('x', 'y', 1) if wname == 'component' else w}; return a + c + d; }}", f"copy chain {T} {wname}", ["copy"]))
    for n in (3, 4):
        M = f"float{n}x{n}"
        R = f"float{n}"
        for wname, w in (("element", "[1][2] = 9.0"), ("row", f"[0] = {R}({', '.join(['9.0'] * n)})"), ("dyn", "[i][0] = 9.0")):
            kp = ", int i" if "[i]" in w else ""
            kb = {"i": (0, n - 1)} if kp else None
            out.append(_t(f"export function f({M} a{kp}) -> {M} {{ {M} c = a; c{w}; return a; }}", f"copy {M} write copy {wname}", ["copy", "matrix"], kb))
            out.append(_t(f"export function f({M} a{kp}) -> {M} {{ {M} c = a; a{w}; return c; }}", f"copy {M} write source {wname}", ["copy", "matrix"], kb))
        out.append(_t(f"export function f({M} a, int i) -> {R} {{ {R} r = a[i]; r.x = 9.0; return a[i]; }}", f"row copy {M} independent", ["copy", "matrix"], {"i": (0, n - 1)}))
        out.append(_t(f"export function f({M} a, int i) -> {M} {{ {R} r = a[i]; a[i][1] = 9.0; a[0] = r; return a; }}", f"row copy {M} then writes", ["copy", "matrix"], {"i": (0, n - 1)}))
    # values that reach two places without a store in between: call arguments, one variable used for several rows / parts of a constructor
    for T, comp, one, n in (("float3", "float", "9.0", 3), ("int4", "int", "9", 4)):
        out.append(_t(f"function h({T} v, int i, {comp} x) -> {comp} {{ v[i] = x; return v[0]; }}\nexport function f({T} a, int i, {comp} x) -> {T} {{ {comp} r = h(a, i, x); a[0] = a[0] + r; return a; }}",
                      f"callee writes an element of its {T} parameter", ["copy", "call"], {"i": (0, n - 1)}, small=True))
        out.append(_t(f"function h({T} v, {comp} x) -> {T} {{ v.y = x; v[0] = x; return v; }}\nexport function f({T} a, {comp} x) -> {T} {{ {T} w = h(a, x); return a + w; }}",
                      f"callee writes components of its {T} parameter", ["copy", "call"], small=True))
    for n in (3, 4):
        M, R = f"float{n}x{n}", f"float{n}"
        rows = ", ".join(["z"] * n)
        out.append(_t(f"export function f({R} z, float x) -> {M} {{ {M} m = {M}({rows}); m[0][1] = x; return m; }}", f"{M} from one row variable, element write", ["copy", "matrix", "construct"]))
        out.append(_t(f"export function f({R} z, float x, int i) -> {M} {{ {M} m = {M}({rows}); m[i][i] = x; z.x = 7.0; return m; }}", f"{M} from one row variable, dynamic element write, row variable written", ["copy", "matrix", "construct"], {"i": (0, n - 1)}))
        out.append(_t(f"function h({M} m, int i, float x) -> float {{ m[i][0] = x; m[0] = m[1]; return m[i][0]; }}\nexport function f({M} a, int i, float x) -> {M} {{ float r = h(a, i, x); a[1][1] = r; return a; }}",
                      f"callee writes elements and rows of its {M} parameter", ["copy", "matrix", "call"], {"i": (0, n - 1)}, small=True))
    out.append(_t("export function f(float2 p, float x) -> float4 { float4 v = float4(p, p); v[2] = x; v.y = 5.0; return v + float4(p.x, p.y, p.x, p.y); }", "vector from one part twice, element writes", ["copy", "construct"]))
    out.append(_t("export function f(float3 a, float3 b, int i) -> float3 { float3[2] arr; arr[0] = a; arr[1] = a; arr[i].y = b.x; return arr[0] + arr[1]; }", "array of vectors element write", ["copy", "array"], {"i": (0, 1)}))
    out.append(_t("struct S { float3 v; float3 w; }\nexport function f(float3 a) -> float3 { S s; s.v = a; s.w = s.v; s.w.x = 9.0; return s.v; }", "struct members independent", ["copy", "struct"]))
    return out


def family(tier):
    return (constructors(tier) + constructed_access(tier) + operators(tier) + selection(tier) + swizzle_reads(tier) + swizzle_writes(tier) + element_writes(tier) + copies(tier)
            + modules(tier))
