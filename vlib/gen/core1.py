"""Scalar core set (family F1, fixed part): systematic small programs around every construct
C01 names.  Independent of the seed; always run."""
import itertools
from . import Item, from_text, has_nonlinear
from ..nslref import ast as A

ARITH = ["+", "-", "*", "/", "%"]
CMP = ["<", "<=", ">", ">=", "==", "!="]
LOGIC = ["&&", "||"]
NB = {"n": (0, 3)}


def _t(text, name, tags=(), bounds=None, small=None):
    it = from_text(text, "f", tags, name, bounds)
    it.small = has_nonlinear(it.prog) if small is None else small
    return it


def operators():
    out = []
    for op in ARITH + CMP + LOGIC:
        for lt, rt in itertools.product(("int", "float"), repeat=2):
            if op == "%" and (lt == "float" or rt == "float"):
                continue
            res = "int" if op in CMP + LOGIC else ("float" if "float" in (lt, rt) else "int")
            out.append(_t(f"export function f({lt} a, {rt} b) -> {res} {{ return a {op} b; }}", f"op {lt}{op}{rt}", ["op"]))
            # with a literal on either side
            lit = "2" if rt == "int" else "2.5"
            out.append(_t(f"export function f({lt} a) -> {res} {{ return a {op} {lit}; }}", f"op {lt}{op}lit{rt}", ["op", "lit"]))
            lit = "7" if lt == "int" else "0.5"
            out.append(_t(f"export function f({rt} b) -> {res} {{ return {lit} {op} b; }}", f"op lit{lt}{op}{rt}", ["op", "lit"]))
    # results used as values: comparison results in arithmetic, logical of comparisons
    for c in CMP:
        out.append(_t(f"export function f(int a, int b) -> int {{ return (a {c} b) + (b {c} a) * 2; }}", f"cmpval {c}", ["op"]))
        out.append(_t(f"export function f(float a, int b) -> int {{ int r = a {c} b; return r * 3 + 1; }}", f"cmpmixed {c}", ["op"]))
    for l in LOGIC:
        for c1, c2 in (("<", ">"), ("==", "!="), ("<=", ">=")):
            out.append(_t(f"export function f(int a, int b, int c) -> int {{ return (a {c1} b) {l} (b {c2} c); }}", f"logic {l}{c1}{c2}", ["op"]))
        out.append(_t(f"export function f(int a, float b) -> int {{ return a {l} b; }}", f"logic-mixed {l}", ["op"]))
    return out


def compound():
    out = []
    for op in ("+=", "-=", "*=", "/="):
        for xt, et in (("int", "int"), ("float", "int"), ("float", "float")):
            out.append(_t(f"export function f({xt} a, {et} b) -> {xt} {{ {xt} x = a; x {op} b; return x; }}", f"compound local {xt}{op}{et}", ["compound"]))
            out.append(_t(f"export function f({xt} a, {et} b) -> {xt} {{ a {op} b; return a; }}", f"compound param {xt}{op}{et}", ["compound"]))
            out.append(_t(f"{xt} g;\nexport function f({et} b) -> {xt} {{ g {op} b; return g; }}", f"compound global {xt}{op}{et}", ["compound", "global"]))
            out.append(_t(f"export function f({xt} a, {et} b, {et} c) -> {xt} {{ {xt} x = a; x {op} b + c; return x; }}", f"compound rhs-extends {xt}{op}{et}", ["compound"]))
            out.append(_t(f"export function f({xt} a, {et} b, int i) -> {xt} {{ {xt}[3] x; x[i] = a; x[i] {op} b; return x[i]; }}", f"compound array {xt}{op}{et}", ["compound", "array"],
                          bounds={"i": (0, 2)}))
    out.append(_t("struct S { int i; float f; }\nexport function f(int a, float b) -> float { S s; s.i = a; s.f = b; s.i += 2; s.f *= 2.0; return s.f + s.i; }", "compound struct", ["compound", "struct"]))
    return out


def affix():
    out = []
    for t in ("int", "float"):
        for form in ("++x", "x++", "--x", "x--"):
            out.append(_t(f"export function f({t} a) -> {t} {{ {t} x = a; {form}; return x; }}", f"affix stmt {t} {form}", ["affix"]))
            out.append(_t(f"export function f({t} a) -> {t} {{ {t} x = a; {t} y = {form}; return y * 10 + x; }}", f"affix init {t} {form}", ["affix"]))
            out.append(_t(f"export function f({t} a) -> {t} {{ {t} x = a; {t} y; y = {form}; return y * 10 + x; }}", f"affix rhs {t} {form}", ["affix"]))
            out.append(_t(f"export function f({t} a) -> {t} {{ {t} x = a; return {form}; }}", f"affix return {t} {form}", ["affix"]))
            p = form.replace("x", "a")
            out.append(_t(f"export function f({t} a) -> {t} {{ {t} y = {p}; return y * 10 + a; }}", f"affix param {t} {form}", ["affix"]))
            g = form.replace("x", "g")
            out.append(_t(f"{t} g;\nexport function f() -> {t} {{ {t} y = {g}; return y * 10 + g; }}", f"affix global {t} {form}", ["affix", "global"]))
            out.append(_t(f"export function f({t} a, {t} b) -> {t} {{ {t} x = a; return {form} + b; }}", f"affix operand {t} {form}", ["affix"]))
    # the constant 1 of ++/-- next to literals of the same value and of the other type
    out.append(_t("export function f(float a) -> float { float s = a; s++; return s * 2.0 + 1.0; }", "affix float next to literal 1.0", ["affix", "float"]))
    out.append(_t("export function f(float a, int b) -> float { float s = a; --s; b++; return s - 1.0 + b + 1; }", "affix float and int next to literals 1.0 and 1", ["affix", "float"]))
    out.append(_t("export function f(int a) -> int { int s = a; s++; int[3] arr; arr[1] = s; return arr[1] + 1; }", "affix int next to index 1 and literal 1", ["affix", "array"]))
    for form in ("++i", "i++"):
        out.append(_t(f"export function f(int n) -> int {{ int s = 0; for (int i = 0; i < n; {form}) {{ s += i; }} return s; }}", f"affix for {form}", ["affix", "loop"], NB))
    for form in ("--i", "i--"):
        out.append(_t(f"export function f(int n) -> int {{ int s = 0; for (int i = n; i > 0; {form}) {{ s += i; }} return s; }}", f"affix for {form}", ["affix", "loop"], NB))
    return out


LOOP_BODIES = {
    # name: statements using i (counter), a (int param), s (accumulator)
    "plain": "s += i + a;",
    "break": "if (i == a) break; s += i + 1;",
    "continue": "if (i == a) continue; s += i + 1;",
    "break-late": "s += i + 1; if (s > a) break;",
    "continue-late": "s += 1; if (i < a) continue; s += 10;",
    "both": "if (i == a) continue; if (s > b) break; s += i + 1;",
    "nested-if": "if (i < a) { if (i == b) { break; } else { s += 2; } } else { continue; } s += 1;",
    "decl": "int t; t += i + 1; s += t;",
    "decl-init": "int t = a; t += i; s += t;",
    "decl-array": "int[2] t; t[0] += i + 1; t[1] += t[0]; s += t[1];",
    "return": "if (i == a) return s + 100; s += i + 1;",
}


def loops():
    out = []
    for bname, body in LOOP_BODIES.items():
        heads = {
            "for": f"for (int i = 0; i < n; ++i) {{ {body} }}",
            "for-post": f"for (int i = 0; i < n; i++) {{ {body} }}",
            "while": f"int i = 0 - 1; while (i < n - 1) {{ i = i + 1; {body} }}",
            "do": f"int i = 0 - 1; do {{ i = i + 1; {body} }} while (i < n - 1)",
        }
        for hname, loop in heads.items():
            out.append(_t(f"export function f(int n, int a, int b) -> int {{ int s = 0; {loop} return s; }}", f"loop {hname} {bname}", ["loop", hname, bname], NB))
    # do-while: body executes at least once; continue re-tests the condition
    out.append(_t("export function f(int a) -> int { int i = 0; do { i++; if (i < a) continue; i += 10; } while (i < 3) return i; }", "do continue retest", ["loop", "do", "continue"], {"a": (-1, 6)}))
    out.append(_t("export function f(int a) -> int { int i = 0; int k = 0; do { i++; k++; if (k > 8) break; if (i == a) continue; i += 1; } while (i < 4) return i * 100 + k; }", "do continue retest 2", ["loop", "do", "continue"], {"a": (-1, 6)}))
    out.append(_t("export function f(int a) -> int { int i = 0; do { i += 2; } while (i < a) return i; }", "do once", ["loop", "do"], {"a": (-3, 7)}))
    out.append(_t("export function f(int a) -> int { int i = 0; while (i < a) i += 3; return i; }", "while single stmt", ["loop", "while"], {"a": (-3, 9)}))
    out.append(_t("export function f(int a) -> int { int i = a; while (i > 5) ; return i; }", "while empty never", ["loop", "while"], {"a": (-3, 5)}))
    out.append(_t("export function f(int n) -> int { int s = 0; int i = 0; for (; i < n; ) { s += 2; i++; } return s * 10 + i; }", "for empty parts", ["loop", "for"], NB))
    out.append(_t("export function f(int n, int a) -> int { int s = 0; for (int i = 0; ; ++i) { if (i >= n) break; s += a; } return s; }", "for no cond", ["loop", "for", "break"], NB))
    # a loop as the very first statement of the function (its test block is the function's first block)
    out.append(_t("export function f(int a) -> int { while (a > 0) { a = a - 3; } return a; }", "while first statement", ["loop", "while"], {"a": (-3, 9)}))
    out.append(_t("export function f(int a) -> int { do { a = a - 3; } while (a > 0) return a; }", "do first statement", ["loop", "do"], {"a": (-3, 9)}))
    out.append(_t("export function f(int a) -> int { for (; a > 0; ) { a = a - 3; if (a == 1) break; } return a; }", "for without init first statement", ["loop", "for"], {"a": (-3, 9)}))
    out.append(_t("export function f(int a) -> int { while (a > 0) { if (a == 4) { a = a - 1; continue; } a = a - 2; } return a; }", "while first statement with continue", ["loop", "while", "continue"], {"a": (-3, 9)}))
    # nesting: break / continue bind to the innermost loop
    for inner, outer in itertools.product(("break", "continue"), repeat=2):
        for h1, h2 in (("for", "for"), ("for", "while"), ("while", "for"), ("do", "for"), ("for", "do"), ("while", "do")):
            def head(kind, var, bound, body):
                if kind == "for":
                    return f"for (int {var} = 0; {var} < {bound}; ++{var}) {{ {body} }}"
                if kind == "while":
                    return f"int {var} = 0 - 1; while ({var} < {bound} - 1) {{ {var} = {var} + 1; {body} }}"
                return f"int {var} = 0 - 1; do {{ {var} = {var} + 1; {body} }} while ({var} < {bound} - 1)"
            ib = f"if (j == a) {inner}; s += 1;"
            ob = f"{head(h2, 'j', 'm', ib)} if (i == b) {outer}; s += 10;"
            out.append(_t(f"export function f(int n, int m, int a, int b) -> int {{ int s = 0; {head(h1, 'i', 'n', ob)} return s; }}",
                          f"nest {h1}/{h2} inner={inner} outer={outer}", ["loop", "nest", h1, h2, inner, outer], {"n": (0, 2), "m": (0, 2)}))
    # loop exit depending on data written in the loop, floats in loops
    out.append(_t("export function f(int a, int n) -> int { int x = a; int k = 0; while (x > 0) { x = x - 3; k++; if (k >= n) break; } return x * 10 + k; }", "data exit", ["loop", "while"], {"a": (-2, 9), "n": (1, 4)}))
    out.append(_t("export function f(float a, int n) -> float { float s = 0.0; for (int i = 0; i < n; ++i) { s = s * 0.5 + a; if (s > 3.0) break; } return s; }", "float loop", ["loop", "for", "float"], NB))
    out.append(_t("export function f(float a, int n) -> float { float s = a; int i = 0; do { s += i; i++; if (s > 2.5) continue; s += 1; } while (i < n) return s; }", "float do", ["loop", "do", "float"], NB))
    return out


def storage():
    out = []
    out.append(_t("export function f(int a, int b, int i, int j) -> int { int[4] x; x[i] = a; x[j] = b; return x[0] + x[1] * 2 + x[2] * 4 + x[3] * 8; }", "array 1d write", ["array"], {"i": (0, 3), "j": (0, 3)}))
    out.append(_t("export function f(int a, int i) -> int { int[3] x; x[0] = 1; x[1] = 2; x[2] = 3; x[i] += a; return x[i] * 100 + x[0] + x[1] + x[2]; }", "array 1d dyn", ["array"], {"i": (0, 2)}))
    out.append(_t("export function f(int a, int b, int i, int j) -> int { int[2][3] x; x[i][j] = a; x[1][2] += b; return x[0][0] + x[0][1] * 2 + x[0][2] * 3 + x[1][0] * 5 + x[1][1] * 7 + x[1][2] * 11; }", "array 2d write", ["array", "array2d"], {"i": (0, 1), "j": (0, 2)}))
    out.append(_t("export function f(float a, int i) -> float { float[3] x; x[i] = a; x[2] += 1; return x[0] + x[1] * 2.0 + x[2] * 4.0; }", "float array", ["array", "float"], {"i": (0, 2)}))
    out.append(_t("export function f(int n, int a) -> int { int[4] x; for (int i = 0; i < n; ++i) { x[i] = a + i; } int s = 0; for (int k = 0; k < 4; ++k) { s = s * 3 + x[k]; } return s; }", "array loop", ["array", "loop"], {"n": (0, 4), "a": (-50, 50)}))
    out.append(_t("export function f(int n, int a) -> int { int s = 0; for (int i = 0; i < n; ++i) { int[2][2] t; t[i][0] += a; t[0][i] += 1; s += t[0][0] + t[0][1] * 3 + t[1][0] * 5 + t[1][1] * 7; } return s; }", "array 2d reinit in loop", ["array", "array2d", "loop", "decl"], {"n": (0, 2)}))
    out.append(_t("struct S { int i; float f; }\nexport function f(int a, float b) -> float { S s; s.i = a; s.f = b; return s.f * 2.0 + s.i; }", "struct rw", ["struct"]))
    out.append(_t("struct S { int i; int j; }\nexport function f(int a, int b) -> int { S s; S t; s.i = a; t.i = b; s.j = t.i + 1; t.j = s.i; return s.i + s.j * 3 + t.i * 5 + t.j * 7; }", "two structs", ["struct"]))
    out.append(_t("struct S { int i; int j; }\nexport function f(int n, int a) -> int { int r = 0; for (int k = 0; k < n; ++k) { S s; s.i += a; s.j += s.i + k; r += s.j; } return r; }", "struct reinit in loop", ["struct", "loop", "decl"], NB))
    out.append(_t("struct In { int x; int[2] a; }\nstruct Out { In inner; int[3] arr; }\nexport function f(int n, int a) -> int { int r = 0; for (int k = 0; k < n; ++k) { Out s; s.arr[k] = s.arr[k] + a; s.inner.x = s.inner.x + 1; s.inner.a[1] = s.inner.a[1] + 2; r = r * 10 + s.arr[0] + s.arr[1] + s.arr[2] + s.inner.x + s.inner.a[1]; } return r; }",
                  "nested struct reinit in loop", ["struct", "loop", "decl", "array"], {"n": (0, 3), "a": (-3, 3)}))
    out.append(_t("int g; float h;\nexport function f(int a, float b) -> float { g = g + a; h = h * b; return g + h; }", "globals rw", ["global"], small=True))
    out.append(_t("int g;\nexport function f(int a) -> int { if (a > g) { g = a; return 1; } return 0; }", "global cond write", ["global"]))
    out.append(_t("int[3] g;\nexport function f(int i, int v) -> int { g[i] = g[i] + v; return g[0] + g[1] * 2 + g[2] * 4; }", "global array", ["global", "array"], {"i": (0, 2)}))
    out.append(_t("int[2][2] g;\nexport function f(int i, int j, int v) -> int { g[i][j] += v; return g[0][0] + g[0][1] * 2 + g[1][0] * 4 + g[1][1] * 8; }", "global array 2d", ["global", "array", "array2d"], {"i": (0, 1), "j": (0, 1)}))
    out.append(_t("export function f(int a) -> int { int x; int y = x + a; int x2; return x + y + x2; }", "zero init int", ["decl"]))
    out.append(_t("export function f(float a) -> float { float x; float y = x + a; return x + y; }", "zero init float", ["decl"]))
    out.append(_t("export function f(int a, int n) -> int { int s = 0; for (int i = 0; i < n; ++i) { int t; t = t + a; s = s + t; } return s; }", "reinit scalar", ["decl", "loop"], NB))
    out.append(_t("export function f(int a, int n) -> int { int s = 0; int i = 0; while (i < n) { int t; float u; t += a; u += t; s = s + t; i++; if (u > 5.0) break; } return s; }", "reinit scalar while", ["decl", "loop"], NB))
    out.append(_t("export function f(int a) -> int { int r = 0; if (a > 0) { int t = 1; r = t; } else { int t = 2; r = t + a; } { int t = 5; r = r * t; } return r; }", "sibling scopes", ["decl", "if"]))
    return out


def branches():
    out = []
    out.append(_t("export function f(int a, int b) -> int { if (a < b) return 1; else if (a == b) return 2; else return 3; }", "if chain return", ["if"]))
    out.append(_t("export function f(int a, int b) -> int { int r = 0; if (a) r = 1; if (b) { r = r + 2; } else r = r + 4; return r; }", "if int cond", ["if"]))
    out.append(_t("export function f(float a) -> int { int r = 0; if (a) r = 1; if (a > 0.5) r += 2; return r; }", "if float cond", ["if", "float"]))
    out.append(_t("export function f(int a, int b, int c) -> int { int r = 0; if (a > 0) { if (b > 0) { r = 1; } else { r = 2; } r += 10; } else { if (c > 0) r = 3; } return r; }", "if nested", ["if"]))
    out.append(_t("export function f(int a, int b) -> int { if (a > 0) if (b > 0) return 1; else return 2; return 3; }", "dangling else", ["if"]))
    out.append(_t("export function f(int a) -> int { int r = 5; if (a == 1) { } else { r = 6; } if (a == 2) { r = 7; } else { } return r; }", "if empty blocks", ["if"]))
    out.append(_t("export function f(int a, float b) -> float { float r = a; if (a < b) { r = b; } return r; }", "int into float var", ["if", "float"]))
    out.append(_t("export function f(int a, int b) -> int { return a / b * b + a % b; }", "div mod identity", ["op"], {"a": (0, 200), "b": (1, 20)}, small=True))
    out.append(_t("export function f(int a, int b) -> int { return a / b; }", "int division trunc", ["op"], {"a": (-200, 200), "b": (-20, 20)}, small=True))
    out.append(_t("export function f(int a, int b, float c) -> float { return a / b + c; }", "int division then promote", ["op", "float"], {"a": (-200, 200), "b": (-20, 20)}, small=True))
    out.append(_t("export function f(int a, float c) -> float { return a / 2 + c * (a / 4); }", "int division literal", ["op", "float"]))
    out.append(_t("export function f(int a, int b, int c) -> int { return a - b - c; }", "left assoc sub", ["op"]))
    out.append(_t("export function f(int a, int b, int c) -> int { return a - b * c + a / 3 - c % 5; }", "mixed precedence", ["op"], {"a": (0, 300), "b": (-30, 30), "c": (0, 300)}, small=True))
    out.append(_t("export function f(int a, int b, int c) -> int { return a < b == c; }", "cmp chain", ["op"]))
    out.append(_t("export function f(int a, int b, int c) -> int { return a || b && c; }", "logic precedence", ["op"]))
    out.append(_t("export function f(int a, int b, int c) -> int { int x; int y; x = y = a + b * c; return x + y; }", "chained assignment", ["op"], small=True))
    out.append(_t("export function f(int a, int b) -> int { int x = a; int y = x = b; return x * 2 + y; }", "assignment as value", ["op"]))
    return out


def scopes():
    """names reused in disjoint sibling scopes: every use reads and writes the declaration lexically visible there, and an
    uninitialised declaration starts from zero whatever an earlier sibling of the same name held"""
    out = []
    out.append(_t("export function f(int a) -> int { int r = 0; { int t = 7; r += t + a; } { int t; t = t + 1; r += t * 100; } return r; }", "sibling blocks, second uninitialised", ["scope", "decl"]))
    out.append(_t("export function f(int a) -> int { int r = 0; { int t; t += a; r += t; } { int t = 5; r += t * 10; } { int t; r += t * 100; } return r; }", "three sibling blocks", ["scope", "decl"]))
    out.append(_t("export function f(int n, int a) -> int { int r = 0; for (int i = 0; i < n; ++i) { if (i == a) { int t = 7; r += t; } else { int t; t = t + 1; r += t * 10; } } return r; }",
                  "if/else siblings across loop iterations", ["scope", "decl", "loop"], {"n": (0, 3)}))
    out.append(_t("export function f(int n, int a) -> int { int r = 0; for (int i = 0; i < n; ++i) { if (i != a) { int t; t = t + 1; r += t * 10; } else { int t = 7; r += t; } } return r; }",
                  "if/else siblings across loop iterations, other order", ["scope", "decl", "loop"], {"n": (0, 3)}))
    out.append(_t("export function f(float a, int b) -> float { float r = 0.0; { float t = a; r += t * 2.0; } { int t; t += b; r += t; } return r; }", "sibling blocks, different types", ["scope", "decl", "float"]))
    out.append(_t("export function f(int a) -> int { int r = 0; { int[2] t; t[1] = a; r += t[1]; } { int[2] t; r += t[1] * 100 + t[0]; } return r; }", "sibling blocks, arrays", ["scope", "decl", "array"]))
    out.append(_t("export function f(int n, int a) -> int { int r = 0; for (int i = 0; i < n; ++i) { r += i; } for (int i = a; i < n; ++i) { r += i * 10; } int k = 0; while (k < n) { int i; i += 1; r += i * 100; k++; } return r; }",
                  "loop variables reused", ["scope", "decl", "loop"], {"n": (0, 3), "a": (0, 3)}))
    out.append(_t("export function f(int a) -> int { int r = a; if (a > 0) { int t = a * 2; r = t; } if (a > 1) { int t; r = r + t; } return r; }", "sibling ifs", ["scope", "decl", "if"]))
    out.append(_t("int g;\nfunction h(int x) -> int { int t = x + g; return t; }\nexport function f(int a) -> int { int t; int r = h(a); t += r; g = t; { int u = t; t = u + 1; } return t * 10 + h(1); }",
                  "same names in caller and callee", ["scope", "decl", "call", "global"], small=True))
    out.append(_t("export function f(int n) -> int { int r = 0; int k = 0; do { int t; t += k + 1; r += t; k++; } while (k < n) return r; }", "declaration in do body", ["scope", "decl", "loop", "do"], {"n": (0, 3)}))
    return out


def all_core():
    return operators() + compound() + affix() + loops() + storage() + branches() + scopes()
