"""Program families (DESIGN.md appendix A).  Every member is an `Item`: our own AST
(nslref.ast.Program), the exported entry point, input assumptions and tags describing what it
contains.  Families are deterministic functions of (tier, seed)."""
from ..nslref import ast as A
from ..nslref.parse import parse


class Item:
    __slots__ = ("prog", "fname", "tags", "name", "bounds", "small")

    def __init__(self, prog, fname="f", tags=(), name="", bounds=None, small=False):
        self.prog = prog
        self.fname = fname
        self.tags = set(tags)
        self.name = name
        self.bounds = bounds or {}     # input name -> (lo, hi) assumption (loop trip counts, index ranges)
        self.small = small             # restrict all int inputs to a small range (nonlinear arithmetic)

    def src(self):
        return self.prog.src()


def from_text(text, fname="f", tags=(), name="", bounds=None, small=False):
    return Item(parse(text), fname, tags, name, bounds, small)


def has_nonlinear(prog):
    """does the program multiply / divide / take the remainder of two non-literal operands?"""
    for n in A.walk(prog):
        if isinstance(n, A.Bin) and n.op in ("*", "/", "%"):
            if not isinstance(n.l, A.Lit) and not isinstance(n.r, A.Lit):
                return True
            if n.op in ("/", "%") and not isinstance(n.r, A.Lit):
                return True
        if isinstance(n, A.Assign) and n.op in ("*=", "/=") and not isinstance(n.value, A.Lit):
            return True
    return False
