"""Program families (DESIGN.md appendix A).  Every member is an `Item`: our own AST
(nslref.ast.Program), the exported entry point, input assumptions and tags describing what it
contains.  Families are deterministic functions of (tier, seed)."""
from ..nslref import ast as A
from ..nslref.parse import parse


class Item:
    __slots__ = ("prog", "fname", "tags", "name", "bounds", "small")

    def __init__(self, prog, fname="f", tags=(), name="", bounds=None, small=False):
        self.prog = prog
        self.fname = fname
        self.tags = set(tags)
        self.name = name
        self.bounds = bounds or {}     # input name -> (lo, hi) assumption (loop trip counts, index ranges)
        self.small = small             # restrict all int inputs to a small range (nonlinear arithmetic)

    def src(self):
        return self.prog.src()


class TextItem(Item):
    """a family member given as text that our own parser does not (need to) understand completely: only the signature
    (structs, globals, exported entry point) is extracted; src() returns the text verbatim"""
    __slots__ = ("text",)

    def src(self):
        return self.text


def from_text(text, fname="f", tags=(), name="", bounds=None, small=False, verbatim=False):
    if not verbatim:
        return Item(parse(text), fname, tags, name, bounds, small)
    it = TextItem(skeleton(text), fname, tags, name, bounds, small)
    it.text = text if text.endswith("\n") else text + "\n"
    return it


def skeleton(text):
    """structs, globals and function signatures of a program text (bodies dropped)"""
    import re
    from ..nslref.parse import Parser, ParseError
    structs, globals_, funcs = [], [], []
    known = {}
    for m in re.finditer(r"struct\s+(\w+)\s*\{([^}]*)\}", text):
        fields = []
        for fm in re.finditer(r"([\w\[\]]+)\s+(\w+)\s*;", m.group(2)):
            fields.append((_type(fm.group(1), known), fm.group(2)))
        st = A.Struct(m.group(1), fields)
        structs.append(st)
        known[st.name] = st
    body = re.sub(r"struct\s+\w+\s*\{[^}]*\}", "", text)
    depth, top = 0, []
    for ch in body:                      # top-level text only (outside function bodies)
        if ch == "{":
            depth += 1
        elif ch == "}":
            depth -= 1
            top.append(";")
        elif depth == 0:
            top.append(ch)
    toptext = "".join(top)
    for m in re.finditer(r"(export\s+)?function\s+(\w+)\s*\(([^)]*)\)\s*->\s*([\w\[\]]+)", toptext):
        params = []
        for part in [x.strip() for x in m.group(3).split(",") if x.strip()]:
            bits = part.replace("__optional", "").split()
            if len(bits) == 2:
                params.append((_type(bits[0], known), bits[1]))
        funcs.append(A.Func(m.group(2), params, _type(m.group(4), known), A.Block([]), exported=bool(m.group(1))))
    rest = re.sub(r"(export\s+)?function\s+\w+\s*\([^)]*\)\s*->\s*[\w\[\]]+", "", toptext)
    for m in re.finditer(r"([\w\[\]]+)\s+(\w+)\s*;", rest):
        if m.group(1) not in ("import",):
            globals_.append((_type(m.group(1), known), m.group(2)))
    return A.Program(funcs, globals_, structs)


def _type(s, known):
    import re
    m = re.match(r"(\w+)((\[\d+\])*)$", s)
    base, dims = m.group(1), [int(d) for d in re.findall(r"\[(\d+)\]", m.group(2))]
    if base in ("matrix3x3", "matrix4x4"):
        base = "float" + base[6:]
    t = ("struct", base) if base in known else base
    return ("arr", t, tuple(dims)) if dims else t


def has_nonlinear(prog):
    """does the program multiply / divide / take the remainder of two non-literal operands?"""
    for n in A.walk(prog):
        if isinstance(n, A.Bin) and n.op in ("*", "/", "%"):
            if not isinstance(n.l, A.Lit) and not isinstance(n.r, A.Lit):
                return True
            if n.op in ("/", "%") and not isinstance(n.r, A.Lit):
                return True
        if isinstance(n, A.Assign) and n.op in ("*=", "/=") and not isinstance(n.value, A.Lit):
            return True
    return False
