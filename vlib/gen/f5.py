"""Family F5: the whole spellable language, biased to type-level corner cases.  Members are
*candidate* programs; only those the real front end accepts are kept by the check (C05), the
rest are counted as rejected.  No reference semantics is needed: the assertion is "no internal
error after acceptance"."""
import itertools
from . import Item, from_text

SCALARS = ["int", "uint", "float"]
VECS = [f"{c}{n}" for c in SCALARS for n in (2, 3, 4)]
MATS = ["float3x3", "float4x4"]
PRIMS = SCALARS + VECS + MATS          # the 14 spellable built-in types
OPS = ["+", "-", "*", "/", "%", "<", "<=", ">", ">=", "==", "!=", "&&", "||"]
S_DEF = "struct S { int i; float f; float3 v; }\n"


def _t(text, name, tags=(), bounds=None, fname="f"):
    it = from_text(text, fname, set(tags) | {"f5"}, name, bounds, verbatim=True)
    it.small = True
    return it


def binary_all():
    out = []
    for op in OPS:
        for L in PRIMS:
            for R in PRIMS:
                out.append(_t(f"export function f({L} a, {R} b) -> void {{ a {op} b; }}", f"bin {L} {op} {R}", ["binary"]))
    return out


def binary_used():
    """results of accepted-looking combinations used further (stored, returned, passed on)"""
    out = []
    for op in OPS:
        for T in ("float3", "int2", "uint4", "float3x3"):
            out.append(_t(f"export function f({T} a, {T} b) -> {T} {{ {T} r = a {op} b; r = r {op} a; return r; }}", f"bin used {T} {op}", ["binary"]))
        for L, R in (("float3", "float"), ("float", "float3"), ("int2", "float"), ("float3x3", "float"), ("float", "float3x3"), ("float3x3", "float3"), ("uint3", "int"), ("float4x4", "float4")):
            out.append(_t(f"export function f({L} a, {R} b) -> void {{ {L} r = a; r = a {op} b; }}", f"bin assign {L} {op} {R}", ["binary"]))
    return out


def swizzles():
    out = []
    for T in SCALARS + VECS + MATS:
        for mask in ("x", "y", "w", "xx", "xy", "zw", "xyzw", "r", "ra", "rgba", "xg", "q", "xyzwx"):
            out.append(_t(f"export function f({T} a) -> void {{ a.{mask}; }}", f"swizzle read {T}.{mask}", ["swizzle"]))
    for T in VECS + ["float", "int"]:
        for mask, V in (("x", "float"), ("xy", "float2"), ("yx", "int2"), ("xx", "float2"), ("zyx", "float3"), ("xyzw", "float4"), ("w", "int")):
            out.append(_t(f"export function f({T} a, {V} b) -> {T} {{ a.{mask} = b; return a; }}", f"swizzle write {T}.{mask} = {V}", ["swizzle"]))
    out.append(_t(S_DEF + "export function f(float3 a) -> float { S s; s.v = a; return s.v.x + s.v.zy.y; }", "swizzle chain on member", ["swizzle", "struct"]))
    out.append(_t(S_DEF + "export function f(float3 a) -> float3 { S s; s.v.x = a.y; s.v.zy = a.xy; return s.v; }", "swizzle write on member", ["swizzle", "struct"]))
    out.append(_t("export function f(float4 a) -> float { return a.xyz.yz.y; }", "swizzle of swizzle", ["swizzle"]))
    out.append(_t("export function f(float4 a, float2 b) -> float4 { a.zw.x = b.y; return a; }", "swizzle write through swizzle", ["swizzle"]))
    out.append(_t("export function f(float3x3 m, int i) -> float2 { return m[i].zx; }", "swizzle of matrix row", ["swizzle"], {"i": (0, 2)}))
    out.append(_t("export function f(float3x3 m, int i, float2 b) -> float3x3 { m[i].zx = b; return m; }", "swizzle write into matrix row", ["swizzle"], {"i": (0, 2)}))
    return out


def indexing():
    out = []
    bases = {"float": "float a", "int3": "int3 a", "float4": "float4 a", "float3x3": "float3x3 a", "int[3]": "int[3] a", "float[2][2]": "float[2][2] a", "float3[2]": "float3[2] a"}
    idx = {"int": "int i", "uint": "uint i", "float": "float i", "int2": "int2 i", "float3x3": "float3x3 i"}
    for bn, bp in bases.items():
        for iname, ip in idx.items():
            out.append(_t(f"export function f({bp}, {ip}) -> void {{ a[i]; }}", f"index {bn}[{iname}]", ["index"], {"i": (0, 1)}))
        for lit in ("0", "1", "2", "3", "4", "-1", "1.0", "0x1", "01"):
            out.append(_t(f"export function f({bp}) -> void {{ a[{lit}]; }}", f"index {bn}[{lit}]", ["index"]))
        out.append(_t(f"export function f({bp}, int i, int j) -> void {{ a[i][j]; }}", f"index {bn}[i][j]", ["index"], {"i": (0, 1), "j": (0, 1)}))
        out.append(_t(f"export function f({bp}, int i, int j, int k) -> void {{ a[i][j][k]; }}", f"index {bn}[i][j][k]", ["index"], {"i": (0, 1), "j": (0, 1), "k": (0, 1)}))
    for bn, bp, V in (("int3", "int3 a", "int"), ("float4", "float4 a", "float"), ("float3x3", "float3x3 a", "float3"), ("int[3]", "int[3] a", "int"), ("float[2][2]", "float[2][2] a", "float"), ("float3[2]", "float3[2] a", "float3")):
        for VT in (V, "float2", "int"):
            out.append(_t(f"export function f({bp}, {VT} v, int i) -> void {{ a[i] = v; a[1] = v; }}", f"index store {bn}[i] = {VT}", ["index"], {"i": (0, 1)}))
    out.append(_t("export function f(float[2][2] a, float v, int i, int j) -> float { a[i][j] = v; a[j][i] += v; return a[0][0] + a[1][1]; }", "2d array stores", ["index"], {"i": (0, 1), "j": (0, 1)}))
    out.append(_t("export function f(float3[2] a, float v, int i, int j) -> float3 { a[i][j] = v; a[i].x += v; return a[0] + a[1]; }", "array of vectors element stores", ["index"], {"i": (0, 1), "j": (0, 2)}))
    out.append(_t("export function f(float3x3 m, float v, int i, int j) -> float3x3 { m[i][j] = v; m[j][i] += v; return m; }", "matrix element stores", ["index"], {"i": (0, 2), "j": (0, 2)}))
    out.append(_t(S_DEF + "export function f(int i, float v) -> float { S[2] arr; arr[i].f = v; arr[1].v.x = v; return arr[0].f + arr[1].f + arr[1].v.x; }", "array of structs", ["index", "struct"], {"i": (0, 1)}))
    out.append(_t(S_DEF + "export function f(int i, float v) -> float { S s; s.v[i] = v; return s.v[0] + s.v[1] + s.v[2]; }", "struct vector member element", ["index", "struct"], {"i": (0, 2)}))
    return out


def constructors():
    out = []
    arg_types = ["int", "float", "uint", "float2", "int2", "float3", "float4", "float3x3"]
    for T in VECS + MATS + SCALARS:
        for n in (1, 2, 3):
            for combo in itertools.product(arg_types, repeat=n):
                if n == 3 and (T not in ("float3", "int4", "float4", "float3x3") or combo.count("float3x3") or combo.count("uint")):
                    continue
                params = ", ".join(f"{t} p{i}" for i, t in enumerate(combo))
                args = ", ".join(f"p{i}" for i in range(n))
                out.append(_t(f"export function f({params}) -> void {{ {T} r = {T}({args}); }}", f"construct {T}({', '.join(combo)})", ["construct"]))
    out.append(_t("export function f(float a) -> float4 { return float4(a, a, a, a); }", "construct float4 of 4", ["construct"]))
    out.append(_t("export function f(float a) -> float4 { return float4(a, a, a, a, a); }", "construct float4 of 5", ["construct"]))
    out.append(_t("export function f(float3 a) -> float3x3 { return float3x3(a, a); }", "construct float3x3 of 2 rows", ["construct"]))
    out.append(_t("export function f(float3 a) -> float3x3 { return float3x3(a, a, a, a); }", "construct float3x3 of 4 rows", ["construct"]))
    out.append(_t("export function f(float4 a) -> float3x3 { return float3x3(a, a, a); }", "construct float3x3 of float4 rows", ["construct"]))
    out.append(_t("export function f(float a) -> float3x3 { return float3x3(a, a, a, a, a, a, a, a, a); }", "construct float3x3 of 9 scalars", ["construct"]))
    return out


def assignments():
    out = []
    types = PRIMS + ["int[2]", "float[3]", "S"]
    for L in types:
        for R in types:
            pre = S_DEF if "S" in (L, R) else ""
            out.append(_t(pre + f"export function f({R} b) -> void {{ {L} x; x = b; }}", f"assign {L} = {R}", ["assign"]))
            out.append(_t(pre + f"export function f({R} b) -> void {{ {L} x = b; }}", f"init {L} = {R}", ["assign"]))
    # the assigned value used afterwards according to the declared type
    for L, R, use in (("float3", "float2", "x.z"), ("float2", "float3", "x.y"), ("float3", "float", "x.y"), ("float", "float3", "x + 1.0"), ("float3x3", "float3", "x[1][1]"),
                      ("int", "float", "x % 2"), ("int[2]", "float[3]", "x[1]"), ("float4", "int4", "x.w / 2"), ("int", "float", "x / 2"), ("uint", "int", "x + 1")):
        out.append(_t(f"export function f({R} b) -> void {{ {L} x; x = b; {use}; }}", f"assign then use {L} = {R}", ["assign"]))
    for op in ("+=", "-=", "*=", "/="):
        for L, R in (("float3", "float3"), ("float3", "float"), ("float3x3", "float3x3"), ("float3x3", "float"), ("int2", "int2"), ("int", "float"), ("float", "int"), ("uint", "int"), ("float3", "int3"),
                     ("float2", "float3"), ("float", "float3")):
            out.append(_t(f"export function f({L} a, {R} b) -> {L} {{ a {op} b; return a; }}", f"compound {L} {op} {R}", ["assign", "compound"]))
    for T in PRIMS:
        for form in ("++x", "x++", "--x", "x--"):
            out.append(_t(f"export function f({T} x) -> {T} {{ {form}; return x; }}", f"affix {T} {form}", ["assign", "affix"]))
    return out


def calls_and_returns():
    out = []
    types = ["int", "uint", "float", "float2", "float3", "int3", "float3x3", "int[2]", "S"]
    for P in types:
        for Aa in types:
            pre = S_DEF if "S" in (P, Aa) else ""
            out.append(_t(pre + f"function g({P} p) -> int {{ return 1; }}\nexport function f({Aa} a) -> int {{ return g(a); }}", f"call g({P}) with {Aa}", ["call"]))
    for D in types:
        for E in types:
            pre = S_DEF if "S" in (D, E) else ""
            out.append(_t(pre + f"export function f({E} a) -> {D} {{ return a; }}", f"return {E} as {D}", ["return"]))
    out += [
        _t("function g(int a) -> int { if (a > 0) return 1; }\nexport function f(int a) -> int { return g(a) + 1; }", "missing return on a path used", ["return", "noreturn"]),
        _t("function g(int a) -> float3 { if (a > 0) return float3(1.0, 2.0, 3.0); }\nexport function f(int a) -> float { float3 v = g(a); return v.x; }", "missing return vector used", ["return", "noreturn"]),
        _t("export function f(int a) -> int { if (a > 0) return 1; }", "missing return in entry", ["return", "noreturn"]),
        _t("export function f(int a) -> int { }", "empty non-void function", ["return", "noreturn"]),
        _t("function g(int a) -> void { a = 1; }\nexport function f(int a) -> int { int x = g(a); return x + 1; }", "void result used", ["return", "void"]),
        _t("function g(int a) -> void { a = 1; }\nexport function f(int a) -> int { return g(a); }", "void result returned", ["return", "void"]),
        _t("function g(int a) -> void { return a; }\nexport function f(int a) -> int { g(a); return a; }", "value returned from void", ["return", "void"]),
        _t("function g(int a) -> int { return; }\nexport function f(int a) -> int { return g(a) + 1; }", "empty return in non-void", ["return", "noreturn"]),
        _t("export function f(int a) -> void { return; a = 2; }", "code after return", ["return"]),
        _t("export function f(int a) -> int { return a; return a + 1; }", "two returns", ["return"]),
        _t("export function f(int a) -> int { while (a > 0) { return a; a = a - 1; } return 0; }", "code after return in loop", ["return"], {"a": (-2, 2)}),
        _t("export function f(int a) -> int { for (int i = 0; i < 2; ++i) { break; a = a + 1; } return a; }", "code after break", ["return"]),
        _t("export function f(int a) -> int { for (int i = 0; i < 2; ++i) { continue; a = a + 1; } return a; }", "code after continue", ["return"]),
        _t("export function f(int a) -> int { if (a > 0) { return 1; } else { return 2; } }", "return in both branches only", ["return"]),
        _t("export function f(int a) -> int { if (a > 0) { return 1; } else { return 2; } return 3; }", "return after both branches", ["return"]),
        _t("function g(int a, int b) -> int { return a - b; }\nexport function f(int a) -> int { return g(a); }", "too few arguments", ["call"]),
        _t("function g(int a) -> int { return a; }\nexport function f(int a) -> int { return g(a, a); }", "too many arguments", ["call"]),
        _t("export function f(int a) -> int { return h(a); }", "unknown function", ["call"]),
        _t("export function f(int a) -> int { return f(a - 1); }", "self recursion unbounded", ["call"], {"a": (0, 0)}) if False else
        _t("export function f(int a) -> int { if (a <= 0) return 0; return f(a - 1) + 1; }", "exported self recursion", ["call"], {"a": (-1, 3)}),
        _t("function g(__optional int a) -> int { return 1; }\nexport function f(int a) -> int { return g(a); }", "optional parameter", ["call"]),
    ]
    return out


def statements():
    out = []
    for T in PRIMS + ["int[2]"]:
        out.append(_t(f"export function f({T} a) -> int {{ if (a) return 1; return 0; }}", f"condition of type {T}", ["stmt"]))
        out.append(_t(f"export function f({T} a) -> int {{ int k = 0; while (a) {{ k++; if (k > 1) break; }} return k; }}", f"while condition of type {T}", ["stmt"]))
    out += [
        _t("export function f(int a) -> int { int x = x + a; return x; }", "initialiser reads itself", ["stmt"]),
        _t("export function f(int a) -> int { return y; }", "undeclared variable", ["stmt"]),
        _t("export function f(int a) -> int { y = a; return a; }", "undeclared assignment target", ["stmt"]),
        _t("export function f(int a) -> int { { int y = a; } return y; }", "use after scope", ["stmt"]),
        _t("export function f(int a) -> int { for (int i = 0; i < 2; ++i) { } return i; }", "loop variable after loop", ["stmt"]),
        _t("export function f(int a) -> int { if (a > 0) int y = 1; return a; }", "declaration as branch", ["stmt"]),
        _t("export function f(int a) -> int { if (a > 0) int y = 1; else y = 2; return a; }", "else uses then-declaration", ["stmt"]),
        _t("export function f(int a) -> int { int a = 2; return a; }", "local shadows parameter", ["stmt"]),
        _t("int g;\nexport function f(int a) -> int { int g = 2; return g; }", "local shadows global", ["stmt"]),
        _t("int g;\nint g;\nexport function f(int a) -> int { return g; }", "global twice", ["stmt"]),
        _t("export function f(int a, int a) -> int { return a; }", "parameter twice", ["stmt"]),
        _t("function g(int a) -> int { return 1; }\nfunction g(int b) -> int { return 2; }\nexport function f(int a) -> int { return g(a); }", "function defined twice", ["stmt"]),
        _t(S_DEF + "export function f(int a) -> int { S s; return s.nope; }", "unknown member", ["stmt", "struct"]),
        _t(S_DEF + "export function f(int a) -> float { S s; S t; t.f = a; s = t; t.f = 5.0; return s.f; }", "struct assignment copies", ["stmt", "struct"]),
        _t(S_DEF + "S g;\nexport function f(float a) -> float { g.f = a; g.v.x = a; g.i = g.i + 1; return g.f + g.v.x; }", "global struct members", ["stmt", "struct", "global"]),
        _t(S_DEF + "struct T { S s; int k; }\nexport function f(float a) -> float { T t; t.s.f = a; t.s.v.y = a; t.k = 1; return t.s.f + t.s.v.y; }", "nested struct", ["stmt", "struct"]),
        _t("struct E { }\nexport function f(int a) -> int { E e; return a; }", "empty struct", ["stmt", "struct"]),
        _t("export function f(int a) -> int { int[2][3] x; int[3] r = x[1]; r[2] = a; return r[2] + x[1][2]; }", "row of 2d array", ["stmt"]),
        _t("export function f(int a) -> int { int[2] x; int[2] y; x[0] = a; y = x; y[0] = 7; return x[0]; }", "array assignment then write", ["stmt"]),
        _t("float3 gv; float3x3 gm; int[2] ga;\nexport function f(float a, int i) -> float { gv.x = a; gm[i][i] = a; ga[i] = 1; return gv.x + gm[i][i] + ga[i]; }", "globals of every kind", ["stmt", "global"], {"i": (0, 1)}),
        _t("export function f(int a) -> int { ; return a; }", "empty statement", ["stmt"]),
        _t("export function f(int a) -> int { { } { { } } return a; }", "empty blocks", ["stmt"]),
        _t("export function f(int a) -> int { 1; a; a + 1; return a; }", "expression statements without effect", ["stmt"]),
        _t("export function f(int a) -> int { for (;;) { a++; if (a > 3) break; } return a; }", "for without parts", ["stmt"], {"a": (0, 4)}),
        _t("export function f(int a) -> int { do { a++; } while (a < 3) return a; }", "do loop", ["stmt"], {"a": (0, 4)}),
        _t("export function f(uint a, uint b) -> uint { return a - b; }", "uint subtraction below zero", ["stmt", "uint"]),
        _t("export function f(uint a, int b) -> int { uint c = b; return a + c; }", "int into uint", ["stmt", "uint"]),
        _t("export function f(float a) -> int { int x = a; uint y = a; return x + y; }", "float into int and uint", ["stmt", "narrow"]),
        _t("export function f(float a) -> int { int[3] arr; arr[1] = 5; return arr[a]; }", "float index variable", ["stmt", "narrow"], {"a": (0, 2)}),
        _t("export function f(int a, int b) -> int { return a / b + a % b; }", "division and modulo by a parameter", ["stmt"], {"a": (-4, 4), "b": (-2, 2)}),
        _t("export function f(float3 a, float b) -> float3 { return a / b; }", "vector division by a parameter", ["stmt"]),
        _t("export function f(int3 a, int b) -> int3 { return a / b; }", "int vector division by a parameter", ["stmt"], {"b": (-2, 2)}),
    ]
    return out


def stores():
    """store target (parameter, local, global) x stored value (literal, folded cast, forwarded load, expression, call result,
    the target itself) x position (first block, branch, loop body); after r5-C14-1: a stale use list only shows on the first
    replacement batch of a function and only for stores to parameters"""
    out = []
    values = {"literal": ("", "2"), "cast of a literal": ("", "{T}(2)"), "cast of another literal type": ("", "{T}(2.5)"),
              "forwarded load": ("{T} b = 3; ", "b"), "forwarded parameter": ("", "p"), "expression": ("", "p * 2 + 1"),
              "call result": ("", "h(p)"), "itself": ("", "{x} + 1"), "cast of itself": ("", "{T}({x})")}
    for T in ("int", "float", "uint"):
        for tk, (glob, params, decl, x) in {"parameter": ("", f"{T} a, {T} p", "", "a"), "second parameter": ("", f"{T} p, {T} a", "", "a"),
                                            "local": ("", f"{T} p", f"{T} a = p; ", "a"), "global": (f"{T} ga;\n", f"{T} p", "", "ga")}.items():
            for vk, (pre, val) in values.items():
                pre, val = pre.format(T=T, x=x), val.format(T=T, x=x)
                st = f"{pre}{x} = {val};"
                for pk, body in {"first block": f"{st} return {x} * p;", "branch": f"if (p > 1) {{ {st} }} return {x} * p;",
                                 "loop body": f"for (int i = 0; i < 2; ++i) {{ {st} }} return {x} * p;",
                                 "twice": f"{st} {st} return {x};"}.items():
                    src = f"{glob}function h({T} q) -> {T} {{ return q + 1; }}\nexport function f({params}) -> {T} {{ {decl}{body} }}"
                    out.append(_t(src, f"store to {tk} of {T}: {vk}, {pk}", ["stmt", "store"]))
    return out


def family(tier):
    items = binary_all() + binary_used() + swizzles() + indexing() + constructors() + assignments() + calls_and_returns() + statements()
    return items
