"""Family F2: optimisation contexts.  A store followed by a load of the same variable in every
consumer position (operand, branch predicate, member access, index, call argument, return,
cast, constructor, swizzle, second forwarded pair, store of a forwarded value), for variables
that are parameters, locals and globals of scalar / vector / matrix / struct / array type; and
constant casts in every position a literal can take.  These programs need no reference
semantics (the unoptimised build is the reference), so float -> int narrowing may occur."""
import re
from . import Item, from_text


def _t(text, name, tags=(), bounds=None, small=False, fname="f"):
    it = from_text(text, fname, set(tags) | {"opt"}, name, bounds)
    it.small = small
    return it


def _var_kinds(t):
    """(prefix declarations, parameter list fragment, variable name) for param / local / global"""
    return [("param", "", f"{t} x, ", "x"), ("local", f"{t} x; ", "", "x"), ("global", "", "", "g")]


def load_after_store():
    out = []
    # --- scalars ---------------------------------------------------------------------------
    for t, one, lit in (("int", "1", "3"), ("float", "1.0", "2.5")):
        for kind, decl, par, x in _var_kinds(t):
            G = f"{t} g;\n" if kind == "global" else ""
            H = f"function h({t} p) -> {t} {{ p = p + {one}; return p * {lit}; }}\n"
            def P(body, ret=t, extra="", helpers=""):
                return f"{G}{helpers}export function f({par}{t} a, {t} b{extra}) -> {ret} {{ {decl}{body} }}"
            n = f"{t}/{kind}"
            out += [
                _t(P(f"{x} = a; return {x};"), f"return {n}"),
                _t(P(f"{x} = a; return {x} + b;"), f"binary left {n}"),
                _t(P(f"{x} = a; return b - {x};"), f"binary right {n}"),
                _t(P(f"{x} = a; return {x} * {x};"), f"binary both {n}", small=True),
                _t(P(f"{x} = a; if ({x}) return b; return a + b;"), f"branch predicate {n}"),
                _t(P(f"{x} = a; if ({x} > b) return {x}; return b;"), f"compare then branch {n}"),
                _t(P(f"{x} = a + b; if ({x}) {{ {x} = {x} - b; }} else {{ {x} = b; }} return {x};"), f"branch predicate then stores {n}"),
                _t(P(f"{x} = a; {t} y = {x}; return y + b;"), f"second pair {n}"),
                _t(P(f"{x} = a; {t} y = {x}; {t} z = y; {x} = z + b; return {x};"), f"chain of pairs {n}"),
                _t(P(f"{x} = a; {x} = {x} + b; {x} = {x} * {lit}; return {x};"), f"repeated stores {n}"),
                _t(P(f"{t} y; {t} z; {x} = a; y = {x}; z = y; return z + b;"), f"chain of plain assignments {n}"),
                _t(P(f"{t} y; {t} z = b; {x} = z; y = {x}; z = --y; return z + {x} * 3;"), f"chain into affix {n}"),
                _t(P(f"{t} y; {x} = a; y = {x}; {x} = y; y = {x}; return y + {x};"), f"ping pong assignments {n}"),
                _t(P(f"{x} = a; return h({x}) + {x};", helpers=H), f"call argument {n}"),
                _t(P(f"{x} = a; return h({x} + b);", helpers=H), f"call argument expr {n}"),
                _t(P(f"{x} = a; {t}2 w = {t}2({x}, {x} + b); return w.y;"), f"constructor {n}"),
                _t(P(f"{x} = a; {t}2 v = {t}2({x}, b); v.x = {x}; return v.x + v.y;"), f"constructor and swizzle store {n}"),
                _t(P(f"{x} = a; ++{x}; return {x};"), f"prefix after store {n}"),
                _t(P(f"{x} = a; {x}++; return {x};"), f"postfix after store {n}"),
                _t(P(f"{x} = a; {t} y = {x}++; return y + {x};"), f"postfix value {n}"),
                _t(P(f"{x} = a; {t} y = --{x}; return y + {x};"), f"prefix value {n}"),
                _t(P(f"{x} = a; {x} += b; return {x};"), f"compound after store {n}"),
                _t(P(f"{x} = a; {x} += {x}; return {x};"), f"compound self {n}"),
                _t(P(f"{t} s = {one}; for (int i = 0; i < n; ++i) {{ {x} = s; s = {x} + a; }} return s + b;", extra=", int n"), f"loop back edge {n}", ["loop"], {"n": (0, 3)}),
                _t(P(f"{x} = a; int i = 0; while (i < n) {{ i = i + 1; {x} = {x} + b; if ({x} > {lit}) break; }} return {x};", extra=", int n"), f"loop carried {n}", ["loop"], {"n": (0, 3)}),
                _t(P(f"{x} = a; {t}[2] arr; arr[0] = {x}; arr[1] = {x} + b; return arr[0] + arr[1];"), f"array store {n}"),
                _t(P(f"{x} = a; return {x};", ret=t) .replace("return", "if (b) { " + x + " = b; } return"), f"store in branch then load {n}"),
            ]
            if t == "int":
                out += [
                    _t(P(f"{x} = a; int[3] arr; arr[1] = 5; return arr[{x}] + b;"), f"index {n}", bounds={"a": (0, 2)}),
                    _t(P(f"int[3] arr; {x} = a; arr[{x}] = b; return arr[0] + arr[1] * 2 + arr[2] * 4;"), f"index store {n}", bounds={"a": (0, 2)}),
                    _t(P(f"{x} = a; float3 v = float3(1.0, 2.0, 4.0); return v[{x}];", ret="float"), f"vector index {n}", bounds={"a": (0, 2)}),
                    _t(P(f"{x} = a; return {x} + 0.5;", ret="float"), f"cast of loaded {n}"),
                    _t(P(f"{x} = a; float y = {x}; return y / 2;", ret="float"), f"int into float var {n}"),
                ]
    # --- vectors, matrices --------------------------------------------------------------------
    for t in ("float3", "int2", "float3x3"):
        for kind, decl, par, x in _var_kinds(t):
            G = f"{t} g;\n" if kind == "global" else ""
            n = f"{t}/{kind}"
            def P(body, ret=t, extra=""):
                return f"{G}export function f({par}{t} a, {t} b{extra}) -> {ret} {{ {decl}{body} }}"
            out += [
                _t(P(f"{x} = a; return {x};"), f"return {n}"),
                _t(P(f"{x} = a; return {x} + b;"), f"binary {n}"),
                _t(P(f"{x} = a + b; {t} y = {x}; return y - a;"), f"second pair {n}"),
            ]
            if t != "float3x3":
                c = t[:-1]
                out += [
                    _t(P(f"{x} = a; return {x}.yx;", ret=f"{c}2"), f"swizzle read {n}"),
                    _t(P(f"{x} = a; {x}.x = b.y; return {x};"), f"swizzle write {n}"),
                    _t(P(f"{x} = a; {x}.yx = b.xy; {x}.x = {x}.y; return {x};"), f"swizzle write twice {n}"),
                    _t(P(f"{x} = a; return {x}[1];", ret=c), f"element read {n}"),
                    _t(P(f"{x} = a; {x}[i] = b[0]; return {x};", extra=", int i"), f"element write {n}", bounds={"i": (0, 1)}),
                    _t(P(f"{x} = a; return {x} * b.x;"), f"scale {n}", small=True),
                ]
            else:
                out += [
                    _t(P(f"{x} = a; return {x}[1];", ret="float3"), f"row read {n}"),
                    _t(P(f"{x} = a; {x}[i] = b[0]; return {x};", extra=", int i"), f"row write {n}", bounds={"i": (0, 2)}),
                    _t(P(f"{x} = a; {x}[i][j] = b[0][0]; return {x};", extra=", int i, int j"), f"element write {n}", bounds={"i": (0, 2), "j": (0, 2)}),
                    _t(P(f"{x} = a; return {x} * b;"), f"product {n}", small=True),
                ]
    # --- structs, arrays --------------------------------------------------------------------------
    S = "struct S { int i; float f; }\n"
    out += [
        _t(S + "export function f(int a, float b) -> float { S s; S t; t.i = a; t.f = b; s = t; return s.f + s.i; }", "struct copy then member"),
        _t(S + "export function f(int a, float b) -> float { S s; S t; t.i = a; s = t; s.f = b; return s.f + s.i + t.f; }", "struct copy then member store"),
        _t(S + "S g;\nexport function f(int a, float b) -> float { S t; t.i = a; t.f = b; g = t; return g.f * 2.0 + g.i; }", "global struct store then member"),
        _t(S + "export function f(int a, float b) -> float { S s; s.i = a; s.f = b; S u = s; return u.f + u.i; }", "struct initialiser then member"),
        _t("export function f(int a, int b, int i) -> int { int[3] p; int[3] q; q[0] = a; q[1] = b; p = q; return p[i] + p[0]; }", "array copy then index", bounds={"i": (0, 2)}),
        _t("export function f(int a, int b, int i) -> int { int[3] p; int[3] q; q[0] = a; p = q; p[i] = b; return p[0] + p[1] * 2 + p[2] * 4; }", "array copy then element store", bounds={"i": (0, 2)}),
        _t("int[3] g;\nexport function f(int a, int i) -> int { int[3] q; q[1] = a; g = q; return g[i]; }", "global array store then index", bounds={"i": (0, 2)}),
        _t("export function f(float3 a, float3 b, int i) -> float3 { float3[2] p; float3[2] q; q[0] = a; q[1] = b; p = q; return p[i]; }", "array of vectors copy", bounds={"i": (0, 1)}),
        # the copy is written, the source is read afterwards (and the other way round): a forwarded aggregate must not alias its source
        _t("export function f(int a, int b, int i) -> int { int[3] p; int[3] q; q[0] = a; q[1] = a; q[2] = a; p = q; p[i] = b; return q[0] + q[1] * 2 + q[2] * 4 + p[i] * 8; }", "array copy, write copy, read source", bounds={"i": (0, 2)}),
        _t("export function f(int a, int b, int i) -> int { int[3] p; int[3] q; q[i] = a; p = q; q[i] = b; return p[i] * 2 + q[i]; }", "array copy, write source, read copy", bounds={"i": (0, 2)}),
        _t("export function f(int[3] q, int b, int i) -> int { int[3] p; p = q; p[i] = b; return q[0] + q[1] * 2 + q[2] * 4; }", "array parameter copied then copy written", bounds={"i": (0, 2)}),
        _t("int[3] g;\nexport function f(int b, int i) -> int { int[3] p; p = g; p[i] = b; return g[0] + g[1] * 2 + g[2] * 4; }", "global array copied then copy written", bounds={"i": (0, 2)}),
        _t("int[3] g;\nexport function f(int b, int i) -> int { int[3] p; p[0] = b; g = p; p[i] = 7; return g[0] + g[1] * 2 + g[2] * 4; }", "local array stored to global then written", bounds={"i": (0, 2)}),
        _t("export function f(int a, int b, int i, int j) -> int { int[2][2] p; int[2][2] q; q[i][j] = a; p = q; p[i][j] = b; return q[i][j] * 2 + p[i][j]; }", "2d array copy then write", bounds={"i": (0, 1), "j": (0, 1)}),
        _t(S + "export function f(int a, float b) -> float { S s; S t; t.i = a; t.f = b; s = t; s.i = 100; s.f = 5.0; return t.f + t.i; }", "struct copy, write copy, read source"),
        _t(S + "export function f(int a, float b) -> float { S s; S t; t.i = a; s = t; t.i = 100; return s.i + t.i * 2.0 + b; }", "struct copy, write source, read copy"),
        _t(S + "S g;\nexport function f(int a) -> float { S t; t = g; t.i = a; return g.i + t.i * 2.0; }", "global struct copied then copy written"),
        _t(S + "S g;\nexport function f(int a) -> float { S t; t.i = a; g = t; t.i = 100; return g.i + t.i * 2.0; }", "local struct stored to global then written"),
        _t("struct V { float3 v; int[2] arr; }\nexport function f(float3 a, int b, int i) -> float { V s; V t; t.v = a; t.arr[i] = b; s = t; s.v.x = 9.0; s.arr[i] = 7; return t.v.x + t.arr[i] + s.v.x * 2.0; }", "struct with aggregate fields copied", bounds={"i": (0, 1)}),
        _t("export function f(float3 a, float b) -> float3 { float3 p; float3 q; q = a; p = q; p.x = b; p[1] = b; return q; }", "vector copy, write copy, read source"),
        _t("export function f(float3x3 a, float b, int i) -> float3x3 { float3x3 p; float3x3 q; q = a; p = q; p[i][i] = b; return q; }", "matrix copy, write copy, read source", bounds={"i": (0, 2)}),
    ]
    # --- something between the store and the load that can change the variable: calls writing a global ---------------------
    W = "int g;\nfunction bump() -> void { g = g + 1; }\nfunction add(int d) -> int { g = g + d; return d * 2; }\n"
    out += [
        _t(W + "export function f(int a) -> int { g = a; bump(); return g; }", "global stored, callee writes it, loaded"),
        _t(W + "export function f(int a) -> int { g = a; int t = add(a); return g + t; }", "global stored, callee with result writes it, loaded"),
        _t(W + "export function f(int a, int b) -> int { g = a; b = b + 1; bump(); b = b * 2; return g + b; }", "global stored, other work and call, loaded"),
        _t(W + "export function f(int a) -> int { g = a; return add(1) + g; }", "global stored, call and load in one expression"),
        _t(W + "export function f(int a) -> int { g = a; return g + add(1) + g; }", "global loaded around a call"),
        _t(W + "export function f(int a, int n) -> int { g = a; for (int i = 0; i < n; ++i) { bump(); } return g; }", "global stored, callee in loop, loaded", ["loop"], {"n": (0, 3)}),
        _t("int g;\nfunction rec(int k) -> int { if (k <= 0) return g; g = g + k; return rec(k - 1); }\nexport function f(int a, int n) -> int { g = a; int r = rec(n); return g * 10 + r; }",
           "global stored, recursive callee writes it", bounds={"n": (0, 3)}, small=True),
        _t("float3 gv;\nfunction tweak() -> void { gv.x = gv.x + 1.0; }\nexport function f(float3 a) -> float3 { gv = a; tweak(); return gv; }", "global vector stored, callee writes a component"),
        _t(S + "S gs;\nfunction tweak() -> void { gs.i = gs.i + 1; }\nexport function f(int a) -> int { S t; t.i = a; gs = t; tweak(); return gs.i; }", "global struct stored, callee writes a member"),
        _t("int[3] ga;\nfunction tweak(int i) -> void { ga[i] = ga[i] + 1; }\nexport function f(int a, int i) -> int { int[3] t; t[i] = a; ga = t; tweak(i); return ga[i]; }", "global array stored, callee writes an element", bounds={"i": (0, 2)}),
    ]
    return out


def constant_casts():
    out = [
        _t("export function f(float a) -> float { float x = 1; return x / 2 + a; }", "int literal into float var"),
        _t("export function f(float a) -> float { return a + 1; }", "float + int literal"),
        _t("export function f(float a) -> float { return 1 + a; }", "int literal + float"),
        _t("export function f(float a) -> float { return a * 2 + 1; }", "two int literals"),
        _t("export function f(float a) -> float { return a / 2 + a / 2.0 + 2 / 4; }", "same value int and float", ),
        _t("export function f(float a, int b) -> float { int i = 1; float g = 1.0; g = g + 1; return g + i + a * b; }", "1 and 1.0 in one function", small=True),
        _t("export function f(float a, int b) -> float { int[2] arr; arr[1] = b; float z = 0.0; z = z + 0; return arr[1] + arr[0] + z + a; }", "0 and 0.0 in one function"),
        _t("export function f(float a, int b) -> float { float x = a + 1; int[3] arr; arr[1] = b; return x + arr[1]; }", "cast literal 1 and index 1"),
        _t("export function f(float a) -> float2 { return float2(1, 2) * a; }", "constructor int literals", small=True),
        _t("export function f(float a) -> float3 { return float3(a, 1, 0.5) + float3(1.0, 1, 1); }", "constructor mixed literals"),
        _t("export function f(float a) -> float4 { return float4(float2(1, a), 1, 2); }", "nested constructor literals"),
        _t("function g(float p) -> float { return p * 0.5; }\nexport function f(float a) -> float { return g(1) + g(a) + g(3); }", "literal call argument"),
        _t("function g(float p, float q) -> float { return p - q; }\nexport function f(int a) -> float { return g(a, 2) + g(2, a); }", "literal and int call arguments"),
        _t("export function f(float a) -> int { return (a < 1) + (1 <= a) * 2 + (a == 2) * 4; }", "literal in comparison"),
        _t("export function f(float a) -> float { if (a > 0) return 1; return 0 - 1; }", "int literal returned as float"),
        _t("export function f(float a, int n) -> float { float s = 0; for (int i = 0; i < n; ++i) { s = s + 1; s = s * 2; } return s + a; }", "literals in loop", ["loop"], {"n": (0, 3)}),
        _t("export function f(float a) -> float { float x = a; x += 1; x *= 2; x -= 3; x /= 4; return x; }", "compound with int literals"),
        _t("export function f(float a) -> float { float x = a; ++x; x++; return x + 1; }", "affix constant and literal"),
        _t("export function f(float3 a) -> float3 { return a * 2 + a / 4; }", "vector scale by int literal"),
        _t("export function f(float3x3 m) -> float3x3 { return m * 2; }", "matrix scale by int literal"),
        # integer literals that single precision cannot hold, in float context (the cast of the literal is folded)
        _t("export function f(float a) -> float { return 16777217 - a; }", "large int literal minus float"),
        _t("export function f(float a) -> int { return (a < 16777217) + (a == 16777217) * 2 + (16777217 <= a) * 4; }", "large int literal compared with float"),
        _t("export function f(float a) -> float { return a + 2147483647 - 2147483520; }", "int max literal in float context"),
        _t("export function f(float a) -> float { float x = a * 123456789; return x - 123456792 * a; }", "nine digit literals times float", small=True),
        _t("export function f(float a) -> float3 { return float3(16777217, 33554433, a) - float3(16777216, 33554432, 0); }", "large int literals in float constructor"),
        _t("function g(float p) -> float { return p - 16777216.0; }\nexport function f(float a) -> float { return g(16777217) + a; }", "large int literal to float parameter"),
        # narrowing constants: the unoptimised build is the reference
        _t("function g(int p) -> int { return p * 2; }\nexport function f(int a) -> int { return g(1.5) + a; }", "float literal to int parameter", ["narrow"]),
        _t("function g(int p) -> int { return p * 2; }\nexport function f(int a) -> int { return g(0.0 - 1.5) + a; }", "negative float expr to int parameter", ["narrow"]),
        _t("export function f(int a) -> int2 { return int2(1.5, a); }", "float literal in int constructor", ["narrow"]),
        _t("export function f(int a) -> int3 { return int3(a, 2.0, 7.9); }", "float literals in int constructor", ["narrow"]),
        _t("function g(int p) -> int { return p + 1; }\nexport function f(float a) -> int { return g(a); }", "float variable to int parameter", ["narrow"]),
        _t("export function f(float a) -> int2 { return int2(a, a * 2.0); }", "float variable in int constructor", ["narrow"]),
        _t("function g(uint p) -> uint { return p + 1; }\nexport function f(int a) -> uint { return g(2.5) + g(3); }", "literal to uint parameter", ["narrow"]),
        _t("function g(uint p) -> uint { return p + 1; }\nexport function f(int a) -> uint { return g(-3) + g(-1); }", "negative literal to uint parameter", ["narrow"]),
        _t("export function f(int a) -> uint2 { return uint2(-1, 2); }", "negative literal in uint constructor", ["narrow"]),
        _t("export function f(int a) -> uint3 { return uint3(a, -7, -2147483648); }", "negative literals in uint constructor", ["narrow"]),
        _t("uint last;\nfunction g(uint p) -> uint { last = p; return p; }\nexport function f(int a) -> uint { return g(-3); }", "negative literal to uint parameter stored in a global", ["narrow", "global"]),
    ]
    # --- a declaration between the store and the load: the name is declared again (sibling scopes, loop bodies), which
    #     re-initialises the variable on the VM; a store before the declaration must not be forwarded to a load after it
    for T, zero, v in (("int", "0", "a"), ("float", "0.0", "b")):
        one = "1" if T == "int" else "1.0"
        out += [
            _t(f"export function f(int a, float b) -> {T} {{ {T} r; {{ {T} t; t = {v}; }} {{ {T} t; r = t; }} return r; }}", f"{T}: store, sibling redeclaration, load"),
            _t(f"export function f(int a, float b) -> {T} {{ {T} r; {{ {T} t = {v}; }} {{ {T} t; r = t + {one}; }} return r; }}", f"{T}: initialiser, sibling redeclaration, load"),
            _t(f"export function f(int a, float b) -> {T} {{ {T} r = {zero}; {{ {T} t; t = {v}; ++t; }} {{ {T} t; t += {one}; r = t; }} return r * 2; }}", f"{T}: affix store, sibling redeclaration, compound"),
            _t(f"export function f(int a, float b) -> {T} {{ {T} r = {zero}; {{ {T} t; t = {v}; }} {{ {T} t = {one}; r = t; }} {{ {T} t; r += t; }} return r; }}", f"{T}: three siblings, middle initialised"),
            _t(f"export function f(int a, float b) -> {T} {{ {T} r = {zero}; {T} t; t = {v}; {{ {T} u; u = t; }} {{ {T} u; r = u + t; }} return r; }}", f"{T}: outer store survives, inner redeclared"),
            _t(f"export function f(int a, float b, int n) -> {T} {{ {T} r = {zero}; for (int i = 0; i < n; ++i) {{ {T} t; r += t; t = {v}; }} return r; }}", f"{T}: store at the end of a loop body, redeclared at its start", ["loop"], {"n": (0, 3)}),
            _t(f"export function f(int a, float b) -> {T} {{ {T} r = {zero}; if (a > 0) {{ {T} t; t = {v}; }} {{ {T} t; r = t; }} return r; }}", f"{T}: store in a branch, sibling redeclaration, load"),
            _t(f"{T} g;\nexport function f(int a, float b) -> {T} {{ {{ {T} g2; g2 = {v}; g = g2; }} {{ {T} g2; g += g2; }} return g; }}", f"{T}: store to local and global, local redeclared"),
        ]
    # --- a store into a variable of another scalar type, read back at once: whatever a store does to the value (nothing, today), the
    #     forwarded value must have had the same done to it
    for decl, src_t, expr, use in (("int h", "float", "a * 0.5", "h"), ("int h", "float", "a", "h + 1"), ("int h", "float", "a", "h * 2 / 3"), ("uint u", "int", "a", "u + 1"),
                                   ("uint u", "int", "a - 4", "u / 2"), ("float x", "int", "a", "x / 2"), ("float x", "int", "a * 3", "x * 0.5 + 1.0"), ("int h", "uint", "a", "h - 1")):
        T = decl.split()[0]
        v = decl.split()[1]
        rt = "float" if (T == "float" or src_t == "float") else "int"
        out += [
            _t(f"export function f({src_t} a) -> {rt} {{ {decl} = {expr}; return {use}; }}", f"initialiser of another type: {decl} = {expr} ({src_t})", ["narrow"]),
            _t(f"export function f({src_t} a) -> {rt} {{ {decl}; {v} = {expr}; return {use}; }}", f"assignment of another type: {decl}; {v} = {expr} ({src_t})", ["narrow"]),
            _t(f"{T} gg;\nexport function f({src_t} a) -> {rt} {{ gg = {expr}; return {re.sub(chr(92) + 'b' + v + chr(92) + 'b', 'gg', use)}; }}", f"global of another type: {decl} = {expr} ({src_t})", ["narrow"]),
        ]
    S = "struct S { int i; float f; }\n"
    out += [
        _t("export function f(float3 a) -> float3 { float3 r; { float3 t; t = a; } { float3 t; r = t; } return r; }", "vector: store, sibling redeclaration, load"),
        _t("export function f(int a, int i) -> int { int r; { int[2] t; t[i] = a; } { int[2] t; r = t[i]; } return r; }", "array: element store, sibling redeclaration, element load", bounds={"i": (0, 1)}),
        _t(S + "export function f(int a) -> int { int r; { S t; t.i = a; } { S t; r = t.i; } return r; }", "struct: member store, sibling redeclaration, member load"),
    ]
    return out


def all_templates():
    return load_after_store() + constant_casts()
