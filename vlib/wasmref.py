"""O2 -- reference decoder, validator and evaluator for the WebAssembly 1.0 (MVP)
subset a scalar compiler can emit.  Written against the specification
(binary format ch. 5, validation appendix algorithm, execution ch. 4); shares no
code with /repo.  It works on lists of byte items that may be Python ints or
symx proxies (SymNum) and symbolic-length name chunks, so the same code serves
the symbolic harnesses (where its branches on symbolic bytes fork through the
engine) and the concrete replays (where it is cross-checked with wasmtime).
"""
import operator
from .shims import Chunk, shim_len

I32, I64, F32, F64 = 0x7F, 0x7E, 0x7D, 0x7C
VALTYPES = {I32: "i32", I64: "i64", F32: "f32", F64: "f64"}


class Malformed(Exception):
    pass


class Invalid(Exception):
    pass


class Trap(Exception):
    pass


class Unmodelled(Exception):
    pass


def _conc(x):
    """Concrete int of an item (forks through the engine for proxies)."""
    return operator.index(x)


class Reader:
    def __init__(self, items):
        self.items = list(items)
        self.pos = 0

    def eof(self):
        return self.pos >= len(self.items)

    def offset(self, upto=None):
        return shim_len(self.items[: self.pos if upto is None else upto])

    def byte(self):
        if self.pos >= len(self.items):
            raise Malformed("unexpected end")
        b = self.items[self.pos]
        if isinstance(b, Chunk):
            raise Malformed("expected a byte, found name payload")
        self.pos += 1
        return b

    def cbyte(self):
        return _conc(self.byte())

    def uleb(self, bits=32):
        """Standard unsigned LEB128 reader for an N-bit integer."""
        result = 0
        shift = 0
        maxbytes = (bits + 6) // 7
        for i in range(maxbytes):
            b = self.byte()
            if not (b >= 0 and b <= 255):
                raise Malformed("byte out of range")
            last = b < 128
            low = b % 128
            if i == maxbytes - 1:
                if not last:
                    raise Malformed("unsigned LEB128 too long")
                if not (low < 2 ** (bits - 7 * i)):
                    raise Malformed("unsigned LEB128 unused bits set")
            result = result + low * (2 ** shift)
            shift += 7
            if last:
                return result
        raise Malformed("unsigned LEB128 too long")

    def sleb(self, bits=32):
        """Standard signed LEB128 reader for an N-bit two's complement integer."""
        result = 0
        shift = 0
        maxbytes = (bits + 6) // 7
        for i in range(maxbytes):
            b = self.byte()
            if not (b >= 0 and b <= 255):
                raise Malformed("byte out of range")
            last = b < 128
            low = b % 128
            if i == maxbytes - 1:
                if not last:
                    raise Malformed("signed LEB128 too long")
                used = bits - 7 * i          # value bits in the final group (incl. sign)
                sign = (low // (2 ** (used - 1))) % 2
                top = low // (2 ** used)
                allones = (2 ** (7 - used)) - 1
                if not ((sign == 0 and top == 0) or (sign == 1 and top == allones)):
                    raise Malformed("signed LEB128 unused bits are not a sign extension")
            result = result + low * (2 ** shift)
            shift += 7
            if last:
                if low >= 64:       # sign bit of the final group
                    result = result - (2 ** shift)
                return result
        raise Malformed("signed LEB128 too long")

    def name(self):
        n = self.uleb()
        if self.pos < len(self.items) and isinstance(self.items[self.pos], Chunk):
            ch = self.items[self.pos]
            self.pos += 1
            if not (n == ch.length):
                raise Malformed("name length prefix differs from the UTF-8 byte length")
            return ch
        k = _conc(n)
        bs = []
        for _ in range(k):
            bs.append(self.cbyte())
        try:
            return bytes(bs).decode("utf-8")
        except UnicodeDecodeError:
            raise Malformed("name is not UTF-8")


# ---------------------------------------------------------------------------
# instruction table: opcode -> (mnemonic, immediates, pops, pushes)
# immediates: "" none, "u" u32, "s32" signed i32, "s64", "f32", "f64", "bt" blocktype, "mem" memarg
# ---------------------------------------------------------------------------
OPS = {
    0x00: ("unreachable", ""), 0x01: ("nop", ""), 0x02: ("block", "bt"), 0x03: ("loop", "bt"), 0x04: ("if", "bt"),
    0x05: ("else", ""), 0x0B: ("end", ""), 0x0C: ("br", "u"), 0x0D: ("br_if", "u"), 0x0F: ("return", ""),
    0x10: ("call", "u"), 0x1A: ("drop", ""), 0x1B: ("select", ""),
    0x20: ("local.get", "u"), 0x21: ("local.set", "u"), 0x22: ("local.tee", "u"),
    0x23: ("global.get", "u"), 0x24: ("global.set", "u"),
    0x28: ("i32.load", "mem"), 0x2A: ("f32.load", "mem"), 0x36: ("i32.store", "mem"), 0x38: ("f32.store", "mem"),
    0x3F: ("memory.size", "z"), 0x40: ("memory.grow", "z"),
    0x41: ("i32.const", "s32"), 0x42: ("i64.const", "s64"), 0x43: ("f32.const", "f32"), 0x44: ("f64.const", "f64"),
}
_i32_cmp = ["eq", "ne", "lt_s", "lt_u", "gt_s", "gt_u", "le_s", "le_u", "ge_s", "ge_u"]
OPS[0x45] = ("i32.eqz", "")
for _i, _n in enumerate(_i32_cmp):
    OPS[0x46 + _i] = ("i32." + _n, "")
for _i, _n in enumerate(["eq", "ne", "lt", "gt", "le", "ge"]):
    OPS[0x5B + _i] = ("f32." + _n, "")
for _i, _n in enumerate(["clz", "ctz", "popcnt", "add", "sub", "mul", "div_s", "div_u", "rem_s", "rem_u", "and", "or",
                         "xor", "shl", "shr_s", "shr_u", "rotl", "rotr"]):
    OPS[0x67 + _i] = ("i32." + _n, "")
for _i, _n in enumerate(["abs", "neg", "ceil", "floor", "trunc", "nearest", "sqrt", "add", "sub", "mul", "div", "min",
                         "max", "copysign"]):
    OPS[0x8B + _i] = ("f32." + _n, "")
OPS[0xA8] = ("i32.trunc_f32_s", "")
OPS[0xA9] = ("i32.trunc_f32_u", "")
OPS[0xB2] = ("f32.convert_i32_s", "")
OPS[0xB3] = ("f32.convert_i32_u", "")
OPS[0xBC] = ("i32.reinterpret_f32", "")
OPS[0xBE] = ("f32.reinterpret_i32", "")


def _sig(name):
    """(pops, pushes) value types of a plain numeric instruction."""
    t, _, op = name.partition(".")
    T = {"i32": I32, "f32": F32}[t]
    if op == "eqz":
        return [I32], [I32]
    if op in _i32_cmp or op in ("eq", "ne", "lt", "gt", "le", "ge"):
        return [T, T], [I32]
    if op in ("clz", "ctz", "popcnt", "abs", "neg", "ceil", "floor", "trunc", "nearest", "sqrt"):
        return [T], [T]
    if op in ("trunc_f32_s", "trunc_f32_u", "reinterpret_f32"):
        return [F32], [I32]
    if op in ("convert_i32_s", "convert_i32_u", "reinterpret_i32"):
        return [I32], [F32]
    return [T, T], [T]


def read_f32(r):
    import struct
    bs = bytes(r.cbyte() for _ in range(4))
    return struct.unpack("<f", bs)[0]


def read_expr(r):
    """Read instructions up to and including the `end` that closes the function body."""
    out = []
    depth = 0
    while True:
        op = r.cbyte()
        if op not in OPS:
            raise Malformed(f"unknown opcode 0x{op:02x}")
        name, imm = OPS[op]
        args = ()
        if imm == "u":
            args = (r.uleb(),)
        elif imm == "s32":
            args = (r.sleb(32),)
        elif imm == "s64":
            args = (r.sleb(64),)
        elif imm == "f32":
            args = (read_f32(r),)
        elif imm == "f64":
            import struct
            args = (struct.unpack("<d", bytes(r.cbyte() for _ in range(8)))[0],)
        elif imm == "bt":
            bt = r.cbyte()
            if bt != 0x40 and bt not in VALTYPES:
                raise Malformed("bad block type")
            args = (bt,)
        elif imm == "mem":
            args = (r.uleb(), r.uleb())
        elif imm == "z":
            if r.cbyte() != 0:
                raise Malformed("zero byte expected")
        out.append((name, args))
        if name in ("block", "loop", "if"):
            depth += 1
        elif name == "end":
            if depth == 0:
                return out
            depth -= 1


class Module:
    def __init__(self):
        self.types = []
        self.funcs = []
        self.tables = []
        self.mems = []
        self.exports = []
        self.codes = []
        self.section_ids = []
        self.has_code_section = False


def _limits(r):
    flag = r.cbyte()
    if flag == 0:
        return (r.uleb(), None)
    if flag == 1:
        return (r.uleb(), r.uleb())
    raise Malformed("bad limits flag")


def decode(items):
    """Binary format: preamble, sections with exact sizes.  Raises Malformed."""
    r = Reader(items)
    pre = [r.cbyte() for _ in range(8)] if len(r.items) >= 8 else None
    if pre != [0x00, 0x61, 0x73, 0x6D, 0x01, 0x00, 0x00, 0x00]:
        raise Malformed("bad preamble")
    m = Module()
    last = 0
    while not r.eof():
        sid = r.cbyte()
        size = r.uleb()
        start = r.pos
        if sid != 0:
            if sid > 11:
                raise Malformed(f"unknown section id {sid}")
            if sid <= last:
                raise Malformed(f"section {sid} out of order / repeated after {last}")
            last = sid
        m.section_ids.append(sid)
        if sid == 1:
            for _ in range(_conc(r.uleb())):
                if r.cbyte() != 0x60:
                    raise Malformed("function type must start with 0x60")
                ps = [r.cbyte() for _ in range(_conc(r.uleb()))]
                rs = [r.cbyte() for _ in range(_conc(r.uleb()))]
                for t in ps + rs:
                    if t not in VALTYPES:
                        raise Malformed(f"bad value type 0x{t:02x}")
                m.types.append((ps, rs))
        elif sid == 3:
            for _ in range(_conc(r.uleb())):
                m.funcs.append(r.uleb())
        elif sid == 4:
            for _ in range(_conc(r.uleb())):
                et = r.cbyte()
                if et != 0x70:
                    raise Malformed("table element type must be funcref")
                m.tables.append(_limits(r))
        elif sid == 5:
            for _ in range(_conc(r.uleb())):
                m.mems.append(_limits(r))
        elif sid == 7:
            for _ in range(_conc(r.uleb())):
                nm = r.name()
                kind = r.cbyte()
                if kind > 3:
                    raise Malformed("bad export kind")
                m.exports.append((nm, kind, r.uleb()))
        elif sid == 10:
            m.has_code_section = True
            for _ in range(_conc(r.uleb())):
                bsize = r.uleb()
                bstart = r.pos
                locs = []
                for _ in range(_conc(r.uleb())):
                    n = r.uleb()
                    t = r.cbyte()
                    if t not in VALTYPES:
                        raise Malformed(f"bad local type 0x{t:02x}")
                    locs.append((n, t))
                body = read_expr(r)
                if not (r.offset() - r.offset(bstart) == bsize):
                    raise Malformed("function body size field differs from the bytes of the body")
                m.codes.append((locs, body))
        elif sid == 0:
            k = _conc(size)
            for _ in range(k):
                r.byte()
        else:
            raise Malformed(f"section {sid} is not produced by this writer; decoder does not read it")
        if not (r.offset() - r.offset(start) == size):
            raise Malformed(f"section {sid}: size field differs from the payload bytes that follow")
    return m


# ---------------------------------------------------------------------------
# validation (spec appendix: validation algorithm)
# ---------------------------------------------------------------------------
class _Frame:
    def __init__(self, opcode, start_types, end_types, height):
        self.opcode = opcode
        self.start_types = start_types
        self.end_types = end_types
        self.height = height
        self.unreachable = False


def validate_body(m, fidx):
    ps, rs = m.types[_conc(m.funcs[fidx])]
    locs, body = m.codes[fidx]
    local_types = list(ps)
    total = 0
    for n, t in locs:
        k = _conc(n)
        total += k
        if total > 50000:
            raise Invalid("too many locals")
        local_types.extend([t] * k)
    vals = []
    ctrls = []

    def push(t):
        vals.append(t)

    def pop(expect=None):
        f = ctrls[-1]
        if len(vals) == f.height:
            if f.unreachable:
                return expect
            raise Invalid("operand stack underflow")
        t = vals.pop()
        if expect is not None and t is not None and t != expect:
            raise Invalid(f"type mismatch: expected {VALTYPES[expect]}, found {VALTYPES[t]}")
        return t

    def push_ctrl(op, ins, outs):
        ctrls.append(_Frame(op, ins, outs, len(vals)))
        for t in ins:
            push(t)

    def pop_ctrl():
        if not ctrls:
            raise Invalid("control stack underflow")
        f = ctrls[-1]
        for t in reversed(f.end_types):
            pop(t)
        if len(vals) != f.height:
            raise Invalid("values left on the stack at the end of a block")
        ctrls.pop()
        return f

    def label_types(f):
        return f.start_types if f.opcode == "loop" else f.end_types

    def unreachable():
        f = ctrls[-1]
        del vals[f.height:]
        f.unreachable = True

    def bt(b):
        return [] if b == 0x40 else [b]

    push_ctrl("func", [], list(rs))
    for i, (name, args) in enumerate(body):
        if not ctrls:
            raise Invalid("instruction after the end of the function")
        if name == "unreachable":
            unreachable()
        elif name == "nop":
            pass
        elif name in ("block", "loop"):
            push_ctrl(name, [], bt(args[0]))
        elif name == "if":
            pop(I32)
            push_ctrl("if", [], bt(args[0]))
        elif name == "else":
            f = pop_ctrl()
            if f.opcode != "if":
                raise Invalid("else without if")
            push_ctrl("else", f.start_types, f.end_types)
        elif name == "end":
            f = pop_ctrl()
            if f.opcode == "if" and f.end_types:
                raise Invalid("if without else must have an empty result")
            for t in f.end_types:
                push(t)
            if not ctrls:
                if i != len(body) - 1:
                    raise Invalid("code after final end")
                vals.clear()
        elif name in ("br", "br_if"):
            n = _conc(args[0])
            if n >= len(ctrls):
                raise Invalid("branch depth out of range")
            if name == "br_if":
                pop(I32)
            lt = label_types(ctrls[-1 - n])
            for t in reversed(lt):
                pop(t)
            if name == "br":
                unreachable()
            else:
                for t in lt:
                    push(t)
        elif name == "return":
            for t in reversed(rs):
                pop(t)
            unreachable()
        elif name == "call":
            n = _conc(args[0])
            if n >= len(m.funcs):
                raise Invalid("call to an undefined function index")
            cps, crs = m.types[_conc(m.funcs[n])]
            for t in reversed(cps):
                pop(t)
            for t in crs:
                push(t)
        elif name == "drop":
            pop()
        elif name == "select":
            pop(I32)
            a = pop()
            b = pop(a)
            push(a if a is not None else b)
        elif name in ("local.get", "local.set", "local.tee"):
            n = args[0]
            if not (n >= 0 and n < len(local_types)):
                raise Invalid(f"local index out of range (locals: {len(local_types)})")
            t = local_types[_conc(n)]
            if name == "local.get":
                push(t)
            elif name == "local.set":
                pop(t)
            else:
                pop(t)
                push(t)
        elif name in ("global.get", "global.set"):
            raise Invalid("no globals are defined")
        elif name in ("i32.load", "f32.load", "i32.store", "f32.store", "memory.size", "memory.grow"):
            if not m.mems:
                raise Invalid("memory instruction without a memory")
            T = F32 if name.startswith("f32") else I32
            if name.endswith("load"):
                pop(I32); push(T)
            elif name.endswith("store"):
                pop(T); pop(I32)
            elif name == "memory.size":
                push(I32)
            else:
                pop(I32); push(I32)
        elif name.endswith(".const"):
            push({"i32": I32, "i64": I64, "f32": F32, "f64": F64}[name[:3]])
        else:
            pops, pushes = _sig(name)
            for t in reversed(pops):
                pop(t)
            for t in pushes:
                push(t)
    if ctrls:
        raise Invalid("function body is not closed")


def validate(m):
    """Module validity (WebAssembly 1.0).  Raises Invalid."""
    for ps, rs in m.types:
        if len(rs) > 1:
            raise Invalid("multiple results are not part of WebAssembly 1.0")
    for t in m.funcs:
        if not (t >= 0 and t < len(m.types)):
            raise Invalid("function refers to an undefined type index")
    if len(m.funcs) != len(m.codes):
        raise Invalid(f"{len(m.funcs)} declared function(s) but {len(m.codes)} code bod(y/ies)")
    if len(m.tables) > 1:
        raise Invalid("more than one table")
    if len(m.mems) > 1:
        raise Invalid("more than one memory")
    for lo, hi in m.tables:
        if hi is not None and not (lo <= hi):
            raise Invalid("table limits min > max")
    for lo, hi in m.mems:
        if not (lo <= 65536) or (hi is not None and (not (hi <= 65536) or not (lo <= hi))):
            raise Invalid("memory limits out of range")
    names = []
    for nm, kind, idx in m.exports:
        if isinstance(nm, Chunk):
            nm = id(nm)
        if nm in names:
            raise Invalid("duplicate export name")
        names.append(nm)
        space = {0: len(m.funcs), 1: len(m.tables), 2: len(m.mems), 3: 0}[kind]
        if not (idx >= 0 and idx < space):
            raise Invalid(f"export refers to an undefined index (kind {kind})")
    for i in range(len(m.codes)):
        validate_body(m, i)
    return True


# ---------------------------------------------------------------------------
# evaluation (values: i32 as signed Python int / SymNum; f32 as float / SymNum real)
# ---------------------------------------------------------------------------
ASSUME_NO_I32_OVERFLOW = False      # set by harnesses that compare values on the domain "no intermediate leaves the 32-bit range"


def wrap32(x):
    if ASSUME_NO_I32_OVERFLOW and not isinstance(x, (int, bool)):
        from . import symx
        import z3
        if isinstance(x, symx.SymNum) and not x.isf:
            symx.current().assume(z3.And(x.e >= -2 ** 31, x.e < 2 ** 31))
            return x
    w = ((x + 2 ** 31) % (2 ** 32)) - 2 ** 31
    if isinstance(x, int) and w != x:
        global WRAPPED
        WRAPPED = True          # a concrete evaluation left the 32-bit range (read by gates that compare on the no-overflow domain)
    return w


WRAPPED = False


def u32(x):
    return x % (2 ** 32)


def _tdiv(a, b):
    q = abs(a) // abs(b)
    return q if ((a < 0) == (b < 0)) else -q


def _b(c):
    return 1 if c else 0


def _match_blocks(body):
    """index of block/loop/if -> (else index or None, end index)"""
    stack, res = [], {}
    for i, (name, _) in enumerate(body):
        if name in ("block", "loop", "if"):
            stack.append([i, None])
        elif name == "else":
            stack[-1][1] = i
        elif name == "end":
            if stack:
                s, e = stack.pop()
                res[s] = (e, i)
    return res


class _Branch(Exception):
    def __init__(self, depth):
        self.depth = depth


class _Return(Exception):
    pass


def call(m, fidx, args, fuel=None, f32round=None):
    """Execute function fidx.  Returns the list of results.  `f32round` (optional)
    rounds an f32 result of arithmetic to single precision in concrete runs."""
    fuel = fuel or [20000]
    ps, rs = m.types[_conc(m.funcs[fidx])]
    locs, body = m.codes[fidx]
    assert len(args) == len(ps)
    L = list(args)
    for n, t in locs:
        L.extend([0 if t in (I32, I64) else 0.0] * _conc(n))
    blocks = _match_blocks(body)
    st = []
    rnd = f32round or (lambda x: x)

    def run(lo, hi):
        pc = lo
        while pc < hi:
            fuel[0] -= 1
            if fuel[0] < 0:
                raise Trap("fuel exhausted")
            name, a = body[pc]
            if name in ("block", "loop", "if"):
                els, end = blocks[pc]
                if name == "if":
                    c = st.pop()
                    if c != 0:
                        seg = (pc + 1, els if els is not None else end)
                    else:
                        seg = (els + 1, end) if els is not None else None
                else:
                    seg = (pc + 1, end)
                while True:
                    try:
                        if seg:
                            run(*seg)
                        break
                    except _Branch as b:
                        if b.depth > 0:
                            raise _Branch(b.depth - 1)
                        if name == "loop":
                            continue
                        break
                pc = end + 1
                continue
            if name == "end" or name == "else":
                pc += 1
                continue
            if name == "nop":
                pass
            elif name == "unreachable":
                raise Trap("unreachable")
            elif name == "br":
                raise _Branch(_conc(a[0]))
            elif name == "br_if":
                c = st.pop()
                if c != 0:
                    raise _Branch(_conc(a[0]))
            elif name == "return":
                raise _Return()
            elif name == "call":
                n = _conc(a[0])
                cps, crs = m.types[_conc(m.funcs[n])]
                cargs = [st.pop() for _ in cps][::-1]
                st.extend(call(m, n, cargs, fuel, f32round))
            elif name == "drop":
                st.pop()
            elif name == "select":
                c = st.pop(); y = st.pop(); x = st.pop()
                st.append(x if c != 0 else y)
            elif name == "local.get":
                st.append(L[_conc(a[0])])
            elif name == "local.set":
                L[_conc(a[0])] = st.pop()
            elif name == "local.tee":
                L[_conc(a[0])] = st[-1]
            elif name == "i32.const":
                st.append(a[0])
            elif name == "f32.const":
                st.append(a[0])
            elif name == "i32.eqz":
                st.append(_b(st.pop() == 0))
            elif name.startswith("i32."):
                op = name[4:]
                if op in ("trunc_f32_s", "trunc_f32_u"):
                    x = st.pop()
                    import math
                    v = math.trunc(x)
                    lo_, hi_ = (-2 ** 31, 2 ** 31) if op.endswith("_s") else (0, 2 ** 32)
                    if not (v >= lo_ and v < hi_):
                        raise Trap("integer overflow in trunc")
                    st.append(wrap32(v))
                    pc += 1
                    continue
                y = st.pop(); x = st.pop()
                if op == "add": r = wrap32(x + y)
                elif op == "sub": r = wrap32(x - y)
                elif op == "mul": r = wrap32(x * y)
                elif op == "div_s":
                    if y == 0: raise Trap("integer divide by zero")
                    if x == -2 ** 31 and y == -1: raise Trap("integer overflow")
                    r = _tdiv(x, y)
                elif op == "div_u":
                    if y == 0: raise Trap("integer divide by zero")
                    r = wrap32(u32(x) // u32(y))
                elif op == "rem_s":
                    if y == 0: raise Trap("integer divide by zero")
                    r = x - y * _tdiv(x, y)
                elif op == "rem_u":
                    if y == 0: raise Trap("integer divide by zero")
                    r = wrap32(u32(x) % u32(y))
                elif op == "eq": r = _b(x == y)
                elif op == "ne": r = _b(x != y)
                elif op == "lt_s": r = _b(x < y)
                elif op == "gt_s": r = _b(x > y)
                elif op == "le_s": r = _b(x <= y)
                elif op == "ge_s": r = _b(x >= y)
                elif op == "lt_u": r = _b(u32(x) < u32(y))
                elif op == "gt_u": r = _b(u32(x) > u32(y))
                elif op == "le_u": r = _b(u32(x) <= u32(y))
                elif op == "ge_u": r = _b(u32(x) >= u32(y))
                else:
                    raise Unmodelled(name)
                st.append(r)
            elif name.startswith("f32."):
                op = name[4:]
                if op in ("convert_i32_s", "convert_i32_u"):
                    x = st.pop()
                    if op.endswith("_u"):
                        x = u32(x)
                    from . import symx
                    st.append(rnd(symx.sym_float(x)))
                elif op in ("abs", "neg"):
                    x = st.pop()
                    st.append(abs(x) if op == "abs" else -x)
                else:
                    y = st.pop(); x = st.pop()
                    if op == "add": r = rnd(x + y)
                    elif op == "sub": r = rnd(x - y)
                    elif op == "mul": r = rnd(x * y)
                    elif op == "div":
                        if y == 0:
                            raise Unmodelled("f32 division by zero (inf/nan)")
                        r = rnd(x / y)
                    elif op == "eq": r = _b(x == y)
                    elif op == "ne": r = _b(x != y)
                    elif op == "lt": r = _b(x < y)
                    elif op == "gt": r = _b(x > y)
                    elif op == "le": r = _b(x <= y)
                    elif op == "ge": r = _b(x >= y)
                    elif op == "min": r = x if x < y else y
                    elif op == "max": r = x if x > y else y
                    else:
                        raise Unmodelled(name)
                    st.append(r)
            else:
                raise Unmodelled(name)
            pc += 1

    try:
        run(0, len(body))
    except _Return:
        pass
    except _Branch:
        pass  # branch to the function label = return
    k = len(rs)
    return st[len(st) - k:] if k else []


def export_index(m, name):
    for nm, kind, idx in m.exports:
        if kind == 0 and nm == name:
            return _conc(idx)
    raise KeyError(name)
