#!/usr/bin/env python3
"""re-run, for every result in scratch/benign2, the checks that did not exit 0 (after a harness fix) and merge the new outcome"""
import json, glob, os, subprocess, sys
os.chdir("/verif")
for f in sorted(glob.glob("scratch/benign2/*.json")):
    name = os.path.basename(f)[:-5]
    d = json.load(open(f))
    bad = [k for k, c in d["checks"].items() if c["exit"] != 0]
    if not bad:
        continue
    r = subprocess.run([sys.executable, "tools/seedtest.py", f"seeded/benign/{name}/patch.diff", "-"] + bad, capture_output=True, text=True)
    try:
        n = json.loads(r.stdout[r.stdout.index("{"):])
    except Exception:
        print(name, "rerun unparseable", r.stdout[-300:], r.stderr[-300:]); continue
    for k, c in n["checks"].items():
        c["rerun"] = True
        d["checks"][k] = c
    json.dump(d, open(f, "w"), indent=1)
    print(name, {k: (c["exit"], c["violations"]) for k, c in n["checks"].items()}, flush=True)
