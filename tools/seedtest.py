#!/usr/bin/env python3
"""seedtest.py <patch.diff> <demo.py> <property id> [more property ids...]

Confirms a seeded change (applies cleanly to a scratch worktree of /repo's HEAD, the repository's test suite still passes, the
demonstration fails with the change and passes without it; "-" as demo skips that: used for benign refactorings, which every check
must let through) and then runs the named checks (quick tier) against the patched scratch
worktree (VERIF_REPO), reporting which of them raise a VIOLATION.  Nothing is applied to /repo itself; the worktree is removed."""
import json, os, subprocess, sys, tempfile, shutil, time

VERIF = os.path.dirname(os.path.dirname(os.path.abspath(__file__)))
PY = "/venv/bin/python"


def sh(cmd, cwd=None, env=None, timeout=3600):
    r = subprocess.run(cmd, cwd=cwd, env=env, capture_output=True, text=True, timeout=timeout)
    return r.returncode, r.stdout + r.stderr


def main():
    patch, demo, pids = os.path.abspath(sys.argv[1]), (os.path.abspath(sys.argv[2]) if sys.argv[2] != "-" else None), sys.argv[3:]
    tier = os.environ.get("SEED_TIER", "quick")
    wt = tempfile.mkdtemp(prefix="verif-seed-")
    os.rmdir(wt)
    out = dict(patch=patch, demo=demo, checks={})
    try:
        rc, o = sh(["git", "-C", "/repo", "worktree", "add", "--detach", "-q", wt, "HEAD"])
        assert rc == 0, o
        os.makedirs(os.path.join(wt, "_seed"), exist_ok=True)
        env = dict(os.environ, PYTHONPATH=wt, PYTHONDONTWRITEBYTECODE="1")
        if demo:
            shutil.copy(demo, os.path.join(wt, "_seed", os.path.basename(demo)))
            rc, o = sh([PY, os.path.join("_seed", os.path.basename(demo)), wt], cwd=wt, env=env, timeout=600)
            out["demo_passes_without_change"] = rc == 0
        rc, o = sh(["git", "apply", "--whitespace=nowarn", patch], cwd=wt)
        out["applies"] = rc == 0
        if rc != 0:
            out["apply_error"] = o[-300:]
            print(json.dumps(out, indent=1)); return 2
        rc, o = sh([PY, "-m", "pytest", "-q", "-p", "no:cacheprovider", "-x"], cwd=wt, env=env, timeout=1200)
        out["tests_pass_with_change"] = rc == 0
        out["tests_tail"] = o.strip().splitlines()[-1] if o.strip() else ""
        if demo:
            rc, o = sh([PY, os.path.join("_seed", os.path.basename(demo)), wt], cwd=wt, env=env, timeout=600)
            out["demo_fails_with_change"] = rc != 0
            out["demo_tail"] = o.strip()[-300:]
        for pid in pids:
            t = time.time()
            rc, o = sh([os.path.join(VERIF, "vcheck"), pid, "--tier", tier], cwd=VERIF, env=dict(os.environ, VERIF_REPO=wt, VERIF_SEEDTEST="1"), timeout=7200)
            viol = [l for l in o.splitlines() if l.startswith("VIOLATION")]
            what = [l.strip()[:260] for l in o.splitlines() if l.strip().startswith("what:")][:2]
            summ = [l for l in o.splitlines() if l.startswith("[" + pid)]
            out["checks"][pid] = dict(exit=rc, violations=len(viol), first=what, summary=summ[-1][:200] if summ else o[-300:], seconds=round(time.time() - t, 1))
    finally:
        sh(["git", "-C", "/repo", "worktree", "remove", "--force", wt])
        shutil.rmtree(wt, ignore_errors=True)
    print(json.dumps(out, indent=1))
    return 0


if __name__ == "__main__":
    sys.exit(main())
