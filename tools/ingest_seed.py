#!/usr/bin/env python3
"""ingest_seed.py <agent seed dir> <n> <property id> <kind>  ->  seeded/r3-<pid>-<k>/ (patch.diff, demo.py, notes.md, meta.json stub)
Copies one change produced by a round-3 sub-agent (changeN.diff, demoN.py, the '## changeN' section of notes.md) into /verif/seeded."""
import json, os, re, shutil, sys

VERIF = os.path.dirname(os.path.dirname(os.path.abspath(__file__)))
src, n, pid, kind = sys.argv[1], sys.argv[2], sys.argv[3], sys.argv[4]
rnd = os.environ.get("ROUND", "3")
k = 1
while os.path.exists(os.path.join(VERIF, "seeded", f"r{rnd}-{pid}-{k}")):
    k += 1
sid = f"r{rnd}-{pid}-{k}"
dst = os.path.join(VERIF, "seeded", sid)
os.makedirs(dst)
shutil.copy(os.path.join(src, f"change{n}.diff"), os.path.join(dst, "patch.diff"))
shutil.copy(os.path.join(src, f"demo{n}.py"), os.path.join(dst, "demo.py"))
notes = open(os.path.join(src, "notes.md")).read()
m = re.search(rf"(^##\s*change{n}\b.*?)(?=^##\s*change\d|\Z)", notes, re.S | re.M)
sec = m.group(1).strip() if m else notes
open(os.path.join(dst, "notes.md"), "w").write(sec + "\n")
json.dump({"seed": sid, "property": pid, "kind": kind,
           "produced_by": f"independent sub-agent (round {rnd}) given only the property texts, the git history and a scratch worktree of /repo"},
          open(os.path.join(dst, "meta.json"), "w"), indent=1)
print(sid)
