#!/usr/bin/env python3
"""edit.py FILE  (reads OLD\n===SEP===\nNEW from stdin) -- exact replacement preserving the file's line endings/BOM."""
import sys
p = sys.argv[1]
raw = open(p, 'rb').read()
crlf = b'\r\n' in raw
text = raw.decode('utf-8')
data = sys.stdin.read()
old, new = data.split('\n===SEP===\n')
new = new.rstrip('\n') + ('\n' if old.endswith('\n') or True else '')
old = old.rstrip('\n') + '\n'
if crlf:
    old = old.replace('\n', '\r\n'); new = new.replace('\n', '\r\n')
assert text.count(old) == 1, f"old text occurs {text.count(old)} times"
open(p, 'wb').write(text.replace(old, new).encode('utf-8'))
print("edited", p, "crlf" if crlf else "lf")
