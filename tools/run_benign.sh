#!/bin/sh
# usage: run_benign.sh <name>...   (every quick check against the benign patch seeded/benign/<name>/patch.diff -> scratch/benign2/<name>.json)
cd /verif; mkdir -p scratch/benign2
for n in "$@"; do
  [ -f scratch/benign2/$n.json ] || python3 tools/seedtest.py seeded/benign/$n/patch.diff - C01 C02 C03 C04 C05 C06 C07 C08 C09 C10 C11 C12 C13 C14 C15 C16 C17 C19 C20 > scratch/benign2/$n.json 2>&1
done
