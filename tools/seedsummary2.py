#!/usr/bin/env python3
import json, glob
for f in sorted(glob.glob('/verif/scratch/seedres2/*.json')):
    try: d=json.load(open(f))
    except Exception: print(f.split('/')[-1], "UNPARSEABLE"); continue
    ok = d.get('applies') and d.get('tests_pass_with_change') and d.get('demo_fails_with_change') and d.get('demo_passes_without_change')
    st = "valid" if ok else f"INVALID(applies={d.get('applies')},tests={d.get('tests_pass_with_change')},demo_fails={d.get('demo_fails_with_change')},demo_ok={d.get('demo_passes_without_change')})"
    print(f.split('/')[-1], st, {k:("CAUGHT" if v['exit']==1 else ("ERR" if v['exit']==2 else "missed"), v['violations']) for k,v in d.get('checks',{}).items()})
