#!/usr/bin/env python3
"""one line per result file in the given directory (default scratch/seedres3)"""
import json, sys, glob, os
d = sys.argv[1] if len(sys.argv) > 1 else "/verif/scratch/seedres3"
for f in sorted(glob.glob(os.path.join(d, "*.json"))):
    try:
        r = json.load(open(f))
    except Exception:
        print(os.path.basename(f), "unparseable / running"); continue
    conf = "".join("Y" if r.get(k) else "n" for k in ("applies", "tests_pass_with_change", "demo_fails_with_change", "demo_passes_without_change"))
    print(os.path.basename(f)[:-5], conf, {k: (c["exit"], c["violations"], (c["first"] or [""])[0][:110]) for k, c in r.get("checks", {}).items()})
