#!/bin/sh
# usage: run_r3.sh <seed id>...   (seedtest with the check of the owning property -> scratch/seedres3/<id>.json)
cd /verif; mkdir -p scratch/seedres3
for id in "$@"; do
  d=seeded/$id; pid=$(python3 -c "import json;print(json.load(open('$d/meta.json'))['property'])")
  [ -f scratch/seedres3/$id.json ] || python3 tools/seedtest.py $d/patch.diff $d/demo.py $pid > scratch/seedres3/$id.json 2>&1
done
