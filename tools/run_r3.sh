#!/bin/sh
# usage: run_r3.sh <seed id>...   (seedtest with the check of the owning property -> scratch/seedres$R/<id>.json)
cd /verif; R=${ROUND:-3}; mkdir -p scratch/seedres$R
for id in "$@"; do
  d=seeded/$id; pid=$(python3 -c "import json;print(json.load(open('$d/meta.json'))['property'])")
  [ -f scratch/seedres$R/$id.json ] || python3 tools/seedtest.py $d/patch.diff $d/demo.py $pid > scratch/seedres$R/$id.json 2>&1
done
