#!/bin/sh
# usage: regress.sh <list of seed dirs>
cd /verif; mkdir -p scratch/regress
for d in "$@"; do
  id=$(basename $d); pid=$(python3 -c "import json;print(json.load(open('$d/meta.json'))['property'])")
  if [ ! -f scratch/regress/$id.json ]; then python3 tools/seedtest.py $d/patch.diff $d/demo.py $pid > scratch/regress/$id.json 2>&1; fi
done
