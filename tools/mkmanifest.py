#!/usr/bin/env python3
"""Regenerates /verif/MANIFEST.json from the table below (kept in one place so that the
manifest stays valid while checks are added)."""
import json, os
HERE = os.path.dirname(os.path.dirname(os.path.abspath(__file__)))

TV, MC = "translation_validation", "model_checking"
SHIMS_VM = "VM namespace shims float()/int(); z3 Int for Python int, z3 Real for float (rounding abstracted)"

CHECKS = {
    # id: (built, category, technique, text, note, design_ref)
    "C19": (True, MC, "symbolic execution of the real writer (symx proxies + z3), reference LEB128/binary decoder as oracle",
            "Bounded symbolic check: nsl.WebAssembly's PackInteger, Instruction/Export/section writers run on symbolic 32-bit integers, "
            "symbolic name lengths and symbolic immediates; a spec-derived decoder reads the bytes back inside the same exploration and z3 "
            "must find no value that decodes differently (unsat per path). Covers every value of the stated ranges, not samples.",
            "Trusts z3, the proxy model of Python ints (DESIGN 2, App. C), the reference decoder vlib/wasmref.py; names: UTF-8 content is "
            "concrete (15 names), only the byte length is symbolic.", "DESIGN.md 5 (C19)"),
}

CHECKS["C13"] = (True, MC, "symbolic execution of the real front-end passes (symx + z3) over symbolic extents and literal indices; CrossHair (symbolic str) for swizzle masks",
    "Bounded symbolic check: ComputeTypes, ValidateArrayAccessType and ValidateArrayOutOfBoundsAccess run on ASTs built through the public "
    "constructors with symbolic array extents (rank 1-3, unbounded), vector sizes, matrix sizes and literal index values; z3 decides per path "
    "accept <=> every index inside the dimension it selects. Swizzle masks: CrossHair explores ValidateSwizzleMask and the pass wiring on a symbolic "
    "str (length 1-3 quick / 1-4 thorough) per vector size, only 'Confirmed over all paths' counts; an exhaustive end-to-end mask enumeration and the "
    "index-type / literal-spelling table are concrete gates, labelled as such in the evidence.",
    "Trusts z3, CrossHair's str model, the proxy model of ints. Non-square matrices (not spellable) are outside the claim.", "DESIGN.md 5 (C13)")

CHECKS["C11"] = (True, MC, "one-step structural induction: symbolic execution of the real flow-statement visitor per node kind with symbolic loop depth (symx + z3)",
    "One inductive step per statement node kind: the real ValidateFlowStatementVisitor method runs with a symbolic incoming loop depth d >= 0 (unbounded) on stub "
    "children that record the depth they receive; z3 decides: loop bodies get d+1, all other children d, each child once, break/continue rejected iff d = 0. The "
    "composition over tree depth is a three-line paper induction (named in the evidence). An exhaustive concrete enumeration of statement trees (<= 4 / 6 nodes) through "
    "Compiler().Compile is the replay channel and a gate, labelled non-symbolic.",
    "Trusts z3 and the proxy model; stub children stand for arbitrary sub-trees because dispatch is by class name; the induction itself is not mechanised.", "DESIGN.md 5 (C11)")
CHECKS["C12"] = (True, MC, "one-step structural induction: symbolic execution of the real name-validation visitor per scope-forming node kind over symbolic names (symx + z3)",
    "One inductive step per scope-forming node kind (declaration, block, sibling blocks, for, while, do, if, if / else-if / else chain, function, struct): the real ValidateVariableNamesVisitor runs on an "
    "arbitrary incoming chain of 1-3 name tables whose names are symbolic elements of an unbounded domain, with stub children that declare and probe names; z3 decides "
    "that a declaration is rejected iff its name is visible, children see exactly chain + names declared so far, sibling branches are independent and the incoming "
    "chain is unchanged. A template family through Compiler().Compile (declaration and use at 13 points x 7 names, expected verdict from a reference scope walker) is "
    "the replay channel and covers ComputeTypes' scopes, together with 672 if / else-if / else chains of 2-4 braced or unbraced branches; labelled non-symbolic.",
    "Trusts z3 and the SymName model (names compared only by ==/hash); the induction over tree depth is a paper argument.", "DESIGN.md 5 (C12)")

CHECKS["C10"] = (True, MC, "symbolic execution of the real Scope.FindFunction / Function.Match over symbolic per-argument scores and of types.Match over symbolic sizes (symx + z3)",
    "Bounded symbolic check: real types.Function objects are registered in every order and the real FindFunction (summation, sort, filter, tie test) runs with "
    "types.Match replaced by its contract, a symbolic score in {-1,0,1} per (candidate, argument); z3 decides per path that the chosen function is the unique "
    "viable candidate with the fewest conversions and that an error is raised exactly when there is none, for every value of the scores. A second harness checks the real "
    "types.Match/IsCompatible against the contract on real type objects with symbolic sizes and extents. Overload sets through Compiler().Compile and the VM "
    "(all 1-parameter pairs/triples, 2-parameter pairs) are the replay channel and a concrete gate.",
    "Trusts z3, the proxy model, and vlib/spec_types.py (written from the statement). 1-3 candidates x 0-2 parameters; optional parameters outside.", "DESIGN.md 5 (C10)")

CHECKS["C09"] = (True, MC, "symbolic execution of the real ResolveBinaryExpressionType and cast insertion over symbolic vector sizes / matrix shapes (symx + z3) against a typing table",
    "Bounded symbolic check: for each of the 1053 (operator, operand kinds, component types) combinations the real typing function and the real "
    "AddImplicitCasts visitor run on real type objects whose sizes are symbolic (1..4); z3 decides per path that accept/reject, result type, operand types and the "
    "inserted casts equal the table transcribed from the statement (vlib/spec_types.py), for all sizes. All 13 x 14 x 14 spellable programs through "
    "Compiler().Compile (accept/reject, static type of the returned value) are the replay channel and a concrete gate.",
    "Trusts z3, the proxy model (repr of a symbolic size forks over its values), the table O3. Matrix comparison is undefined by the statement and not checked.", "DESIGN.md 5 (C09)")

CHECKS["C20"] = (True, MC, "symbolic execution of the real line-table, range-formatting, merge and parser-action code over symbolic line lengths, offsets, spans and token positions (symx + z3)",
    "Bounded symbolic check composed of four links: SourceMapping built through its constructor from 1-5 lines of symbolic (unbounded) length and queried at a "
    "symbolic offset (via the C-level bisect); Location.__str__ on symbolic spans with placeholder-token formatting; Location.Merge of 1-4 symbolic spans and one "
    "UpdateLocations step per AST node kind; every parser action that attaches a position called with a stub production whose lexpos are symbolic. z3 decides each "
    "against textbook definitions (line = number of line starts <= offset - 1; hull; span of the identifier token). A concrete family of layouts (tabs, blank lines, "
    "line breaks inside declarations) checks the parsed nodes' ranges and the redeclaration diagnostic end to end; labelled non-symbolic.",
    "Trusts z3, the proxy model, the len shim, and PLY's lexpos (offset of a token's first character). The end column is read as an exclusive 1-based bound.", "DESIGN.md 5 (C20)")

CHECKS["C08"] = (True, TV, "translation validation per program: reference interpreter on the prescribed tree vs the real front end + VM on symbolic operands (symx + z3)",
    "For every ordered pair (and sampled / all triples) of the 13 binary operators, with and without parentheses, in return / assignment / initialiser / += context, "
    "the program is compiled by the real lexer, parser, passes and lowering and executed on the real VM with symbolic operands; the reference interpreter evaluates the "
    "tree the statement prescribes and z3 decides per joint path that no operand values distinguish them. A concrete gate compares the shape of the real parse tree "
    "with the prescribed tree (groupings no values can distinguish) and the IR listing across whitespace layouts, with variable and (signed) literal operands. "
    "Float64 part: for the same-level pairs whose groupings agree over the reals (+ +, + - quick; * *, * / thorough) z3's floating-point theory finds binary64 operands, as variables and "
    "as literal constants, on which the groupings differ; both optimisation levels must return the left-to-right value.",
    "Trusts z3, the proxy model (floats as reals outside the Float64 part), the reference interpreter O1. Operands in [-1000,1000]; float % outside.", "DESIGN.md 5 (C08), 11.2")

CHECKS["C01"] = (True, TV, "translation validation per program: reference interpreter O1 vs the real front end, lowering and VM on symbolic arguments and globals (symx + z3)",
    "Every member of family F1 (a fixed core set of ~400 systematic programs over all operators, compound assignments, ++/--, every loop form with break/continue "
    "and nesting, arrays, structs, globals, re-initialised locals; plus VERIF_SEED-generated random scalar programs) is compiled by the real lexer, parser, passes and lowering, "
    "linked and run on the real VM with symbolic arguments and symbolic initial globals; the reference interpreter runs first on the same symbols and contributes the domain "
    "assumptions. z3 decides per joint path that no input makes the return value or any global differ; a VM exception or non-termination on a feasible path is a violation. "
    "The core set runs as an unoptimised and as an optimised build.",
    "Trusts z3, the proxy model (Python int = Int, float = Real: rounding abstracted), the reference interpreter (validated against the 51 programs of tests/test_vm.py on every run). "
    "Loop trip counts <= 3 (quick) / 4 (thorough); programs outside the family are outside the claim.", "DESIGN.md 5 (C01)")

CHECKS["C03"] = (True, TV, "translation validation per program over call graphs: reference interpreter (fresh frame per activation, overload by the statement's rule) vs the real lowering and VM on symbolic arguments (symx + z3)",
    "Every member of family F3 (templates: each read position of a caller parameter/local after a call x callee shapes that overwrite their own parameters x definition order; nested, "
    "repeated, sequential calls; direct, tree and mutual recursion to depth 4; overloads by int/float and vector size; vector and matrix arguments written in the callee by plain, element, "
    "row, swizzle and dynamic-index stores; void callees; plus seeded random programs with helper functions) is compiled and linked by the real code and run on the real VM with symbolic "
    "arguments; z3 decides per joint path that return value and globals equal the reference interpreter's.",
    "Trusts z3, the proxy model, the reference interpreter and the overload table O3. Array/struct arguments and optional parameters are outside.", "DESIGN.md 5 (C03)")

CHECKS["C04"] = (True, TV, "translation validation per program over an exhaustively generated vector/matrix family: reference interpreter vs the real typing, lowering and VM with every component, scalar and dynamic index symbolic (symx + z3)",
    "Family F4 is generated from tables: constructors in every split of scalars and smaller vectors, + - and the six comparisons on every int/float vector type, scaling by a scalar on either side, "
    "matrix + - * for 3x3 and 4x4, constant and dynamic v[i], m[i], m[i][j], every swizzle read mask of length 1-4 over both letter sets, every non-repeating swizzle write mask, element and row "
    "writes with constant and dynamic index, copies followed by writes to the copy or the source. Each member is compiled by the real front end and run on the real VM with all components "
    "symbolic; z3 decides per joint path that every component of the result equals the reference interpreter's.",
    "Trusts z3, the proxy model (floats as reals), the reference interpreter. uint vectors and non-square matrices outside.", "DESIGN.md 5 (C04)")

CHECKS["C02"] = (True, TV, "differential translation validation: unoptimised vs optimised build of the same source on the real VM with symbolic arguments and globals (symx + z3); accept/reject compared concretely",
    "Every member of F2 (a store followed by a load of the same variable in every consumer position - operand, branch predicate, member access, index, call argument, return, cast, constructor, "
    "swizzle, chained forwarding - for parameters, locals and globals of scalar, vector, matrix, struct and array type; constant casts in every literal position) and of the F1 core set, the F3 templates, "
    "F4 and seeded random programs is compiled by the real compiler with optimize off and on; both modules run on the real VM on the same symbolic inputs in one exploration and z3 decides per joint "
    "path that return value, globals and the kind of failure are equal. The evidence counts the programs in which an optimisation actually fired.",
    "Trusts z3 and the proxy model (floats as reals). The unoptimised build is the reference; no source-level oracle is involved.", "DESIGN.md 5 (C02)")

CHECKS["C14"] = (True, MC, "bounded path search by SMT over the real IR: per function one z3 query over integer path variables asks for a CFG path reaching a use without passing the operand's definition; structural gate on references, operands, branch targets and calls",
    "For every IR module the real compiler produces for families F1-F4, the F5 call/statement corner cases and the systematic store set (target parameter/local/global x stored value x position) at both optimisation levels: a structural pass (references unique per function; each operand read through the instruction's "
    "public properties is a constant of the function or a value-producing instruction still in a block; branch targets are blocks of the function, two when conditional; calls name a function "
    "of the linked program with equal arity) and, per function, one z3 query over path variables b_0..b_L (L < number of blocks, complete because violating paths can be made simple) "
    "that asks for a path entry -> use on which the operand's definition has not executed. unsat for all (use, operand) pairs = defined before use on every path.",
    "Trusts z3 and the checker's reading of the VM's control flow (fall-through, nothing after a terminator). Named locals are not operands and are not covered.", "DESIGN.md 5 (C14)")

CHECKS["C05"] = (True, MC, "symbolic execution of the real VM on every accepted member of a whole-language family with symbolic inputs of the declared types (symx + z3): reachability of an internal-error path; compile/link stages checked concretely at both optimisation levels",
    "Family F5 enumerates the type-level corner cases of the spellable language (13 operators x 14 x 14 operand types, swizzles and indexing on every type, constructors from every argument list up to 3, "
    "assignments / initialisers / returns / call arguments between all types, compound assignment and ++/-- on every type, missing and void returns, statement corner cases) together with F1-F4. A member is kept "
    "when the real front end accepts it (stage read from the raising frame). For accepted members lowering, the IR passes at both optimisation settings and linking must succeed, and the real VM is explored "
    "with symbolic inputs: every path ends normally or in a defined failure (division by zero, IndexError of a subscript with a non-constant index) for all inputs of its path condition; a path "
    "ending in any other exception yields a z3 witness that is replayed concretely.",
    "Trusts z3 and the proxy model (every reported failure is replayed on concrete values; VM.py is scanned for exact-type tests that proxies would mask). Crashes of the front end itself are counted, not claimed.",
    "DESIGN.md 5 (C05)")

CHECKS["C17"] = (True, TV, "differential translation validation: module reloaded from the file written by nslc.py (child process) and by in-process pickling vs the module compiled in memory, on the real VM with symbolic inputs (symx + z3); listing/metadata equality as a concrete gate",
    "Each (program, optimisation level) of the family is written to a file by the real driver nslc.py in a child process and pickled in the checker's process; both files are loaded with the real "
    "FilesystemModuleLoader (with and without the .nslir suffix). Gate: InstructionPrinter listing, function and global tables, imports and metadata of the reloaded module equal those of the module "
    "compiled in memory. Then both modules are linked and run on the real VM on the same symbolic arguments and globals in one exploration; z3 decides per joint path that results, globals and failure kinds agree.",
    "Trusts z3, the proxy model, pickle. The in-memory module is the reference.", "DESIGN.md 5 (C17)")

CHECKS["C16"] = (True, TV, "differential translation validation: program linked from separately compiled modules (nslc.py child processes, real FilesystemModuleLoader and Linker) vs the single-module compilation, on the real VM with symbolic arguments and globals (symx + z3); load counts, link-order independence and duplicate rejection as concrete gates",
    "Six program bases of four functions (call chain with extra edges, exported helpers with a loop, overloads split over modules, vector arguments, module-private global state, a structure type shared across modules) "
    "are partitioned in every way that needs no cyclic import into main + up to three libraries (chain, fork, diamond), with imports first / after the first function / interleaved; every module is compiled by nslc.py in "
    "dependency order into a scratch directory and linked by the real Linker. Gates: each imported module is loaded exactly once (counting loader), the function table is the same for every order of AddModule over main and "
    "two unrelated modules, duplicate functions/globals are rejected in either order. Then the linked program and the single-module build run on the real VM on the same symbolic inputs; z3 decides per joint path that they agree.",
    "Trusts z3, the proxy model, pickle. Cyclic imports, more than four modules and importer access to imported globals are outside.", "DESIGN.md 5 (C16)")

CHECKS["C15"] = (True, MC, "bounded symbolic execution of host-operation histories on two real VMs from an arbitrary symbolic state against the reference state machine (symx + z3): one inductive step for every operation plus short histories; object-identity and program-fingerprint gates",
    "Seven state programs (scalar, array, 2-D array, vector/matrix, struct globals; recursion with global counters; locals of every kind). Both VMs created from one linked program start with every global set to "
    "arbitrary symbolic values of its type; histories of SetGlobal / Invoke operations with symbolic payloads (every single operation = one inductive step from any state; all pairs on one VM and across the two VMs; "
    "sampled triples, in thorough also quadruples) run on the real VMs and on the reference state machine (O1 with persistent globals, one per VM); all globals of both VMs are observed after every step. "
    "z3 decides per joint path that every return value and observed global equals the reference's. Gates: no container object shared between globals or VMs after the history; Program listing and constants unchanged.",
    "Trusts z3, the proxy model, the reference interpreter. Histories longer than 4 are covered only through the inductive step (the invariant - no sharing, program unchanged - is checked, its sufficiency is a paper argument).", "DESIGN.md 5 (C15)")

CHECKS["C07"] = (True, MC, "symbolic execution of the real wasm generator and writer on IR with symbolic 32-bit constants; the emitted byte string (symbolic bytes) is decoded and validated by a reference WebAssembly 1.0 decoder/validator inside the same exploration (symx + z3); counterexamples confirmed with wasmtime",
    "For every member of the wasm families (all expressions of depth <= 2 and sampled depth 3 over + - * / == < > on int and float parameters and constants; every parameter list of 0-4 int/float parameters "
    "with int / float / void results and mixed-type temporaries; 2-4 functions in many orders; a long export name; programs outside the translatable subset) the real GenerateWasm pass and Module.WriteTo run on IR whose "
    "integer constants are symbolic over [-2^31, 2^31). The reference decoder checks preamble, section order and exact section / body sizes, type / function / export / local indices and type-checks every body; its "
    "branches on symbolic bytes (LEB128 continuation bits) fork through the engine, so each path covers all constants with those encodings. Every path ends in a reported error or in a module valid for all values of the path.",
    "Trusts z3, the proxy model, the reference validator vlib/wasmref.py (cross-checked with wasmtime on hand-assembled valid and invalid modules on every run and on every counterexample).", "DESIGN.md 5 (C07)")
CHECKS["C06"] = (True, TV, "translation validation per program: the exported function of the emitted binary, evaluated by a reference WebAssembly evaluator on symbolic arguments and constants, vs the real VM on the same IR (symx + z3); per-instruction emission gate; replay through wasmtime",
    "Same pipeline as C07; in addition the reference evaluator runs the exported function on symbolic arguments and the real VM runs the same IR (same symbolic constants). z3 decides per joint path that no "
    "argument / constant values make the results differ (i32 exactly, on the domain where no intermediate leaves the 32-bit range; f32 as reals). Gate per path: every IR instruction the backend visited produced at "
    "least one wasm instruction or an error was reported (never silently dropped). Programs outside the translatable subset must be refused with an error or translated correctly.",
    "Trusts z3, the proxy model, the reference evaluator (every counterexample is replayed through Compiler().Compile(src, {'wasm': True}) and wasmtime). Single-precision rounding and traps other than division by zero are outside.", "DESIGN.md 5 (C06)")

NOT_YET = "check not built yet in this round (see DESIGN.md status); nothing is claimed"
NA = {
    "C18": "quantifies over hash seeds, processes and compilation histories: none of these is a value flowing through the code, so there is no assertion over symbolic variables for a solver to decide (DESIGN.md section 6)",
}

def main():
    checks = []
    for pid in sorted(CHECKS):
        built, cat, tech, text, note, ref = CHECKS[pid]
        if not built:
            continue
        checks.append({
            "property_id": pid,
            "quick_cmd": f"./vcheck {pid} --tier quick",
            "thorough_cmd": f"./vcheck {pid} --tier thorough",
            "evidence_file": f"evidence/{pid}.json",
            "replay_cmd_template": "./vcheck replay {path}",
            "engine": "symx",
            "level_claimed": {"category": cat, "text": text, "design_ref": ref},
            "level_note": note,
            "technique": tech,
        })
    na = []
    for i in range(1, 21):
        pid = f"C{i:02d}"
        if pid in NA:
            na.append({"property_id": pid, "reason": NA[pid]})
        elif pid not in CHECKS or not CHECKS[pid][0]:
            na.append({"property_id": pid, "reason": NOT_YET})
    man = {
        "version": 1,
        "setup_cmd": "./setup.sh",
        "hooks": {
            "guard": "ANTERU_NSL_VERIF",
            "enable": "no source hooks: all instrumentation is namespace injection in the checker's process (DESIGN.md 2.2); the guard variable is reserved and unused",
            "baseline_off_cmd": "cd /repo && /venv/bin/python -m pytest -ra -q -p no:cacheprovider --timeout=900 --continue-on-collection-errors",
            "source_commits": [],
            "add_only": True,
        },
        "engines": [
            {"name": "symx", "path": "vlib/symx.py", "serves_properties": sorted(p for p in CHECKS if CHECKS[p][0]),
             "kind_free_text": "dynamic symbolic execution of the real CPython code of /repo with z3-backed proxy values; per-path SMT queries (z3 5.1), cvc5 cross-check in the thorough tier"},
        ],
        "checks": checks,
        "not_applicable": na,
        "notes": "Exit codes: 0 ok (KNOWN-FINDING lines possible), 1 violation (VIOLATION line), 2 harness error (nothing claimed). Known findings and fixed defects: known_findings.json.",
    }
    with open(os.path.join(HERE, "MANIFEST.json"), "w") as f:
        json.dump(man, f, indent=1)
    print("MANIFEST.json:", len(checks), "checks,", len(na), "not_applicable")

if __name__ == "__main__":
    main()
