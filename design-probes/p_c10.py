import z3, io, contextlib, time, itertools
import symx
from symx import SymNum, Engine
from nsl import ast, types, Errors

def mkfun(tag, nparams):
    args = [ast.Argument(types.Integer(), f"p{i}") for i in range(nparams)]
    f = types.Function("h", types.Integer(), args)
    f.Resolve(types.Scope())
    f.tag = tag
    return f

NC, NP = 2, 2
m = [[z3.Int(f"m{c}{i}") for i in range(NP)] for c in range(NC)]
pre = z3.And(*[z3.And(x >= -1, x <= 1) for row in m for x in row])
calls = {}
def run(order):
    funs = [mkfun(c, NP) for c in range(NC)]
    argtypes = [types.Integer() for _ in range(NP)]
    # contract stub for types.Match: keyed by (candidate, position) through identity of the parameter list
    counter = {"k": 0}
    table = {}
    def stubMatch(l, r):
        k = counter["k"]; counter["k"] += 1
        c, i = divmod(k, NP)
        return SymNum(m[order[c]][i], False)
    types.Match = stubMatch
    sc = types.Scope()
    for c in order: sc.RegisterFunction("h", funs[c])
    try:
        return ("chosen", sc.FindFunction("h", argtypes).tag)
    except Errors.CompileException as e:
        return ("error", e.message.code)
eng = Engine(); symx.ENG = eng
def spec(out):
    viable = [z3.And(*[x >= 0 for x in m[c]]) for c in range(NC)]
    score = [z3.Sum([z3.If(x == 1, 1, 0) for x in m[c]]) for c in range(NC)]
    best = lambda c: z3.And(viable[c], *[z3.Or(z3.Not(viable[d]), score[c] < score[d]) for d in range(NC) if d != c])
    if out[0] == "chosen": return best(out[1])
    none_viable = z3.And(*[z3.Not(v) for v in viable])
    if out[1] == 2103: return none_viable
    if out[1] == 2101: return z3.And(z3.Not(none_viable), *[z3.Not(best(c)) for c in range(NC)])
    return z3.BoolVal(False)
for order in itertools.permutations(range(NC)):
    res = eng.explore(lambda: run(order), pre)
    s = z3.Solver(); bad = 0; wit=None
    for pc,(k,out) in res:
        assert k == 'ok', out
        s.push(); s.add(pre, *pc, z3.Not(spec(out)))
        if s.check() == z3.sat:
            bad += 1; wit = (out, s.model())
        s.pop()
    print(order, len(res), "paths", bad, "violating paths; e.g.", wit)
