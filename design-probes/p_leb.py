import z3, time, math
import symx
from symx import SymNum, SymBool, Engine, lift
import nsl.WebAssembly as W

# extra proxy ops needed by PackInteger
def bit_length(self):
    a = z3.If(self.e < 0, -self.e, self.e)
    e = z3.IntVal(64)
    for k in range(63, -1, -1):
        e = z3.If(a < 2**k, k, e)
    return SymNum(e, False)
SymNum.bit_length = bit_length
SymNum.__ceil__ = lambda self: SymNum(-z3.ToInt(-self.e), False) if self.isf else self
def _and(self, o):
    assert isinstance(o, int) and o > 0 and (o & (o+1)) == 0   # mask 2^k-1
    return SymNum(self.e % (o+1), False)
SymNum.__and__ = _and
def _rshift(self, o):
    assert isinstance(o, int)
    return SymNum(self.e / (2**o), False)   # z3 Int div: floor for positive divisor
SymNum.__rshift__ = _rshift
def _or(self, o):
    assert o == 0x80
    # caller invariant checked: 0 <= self < 128
    if symx.ENG.branch(z3.Not(z3.And(self.e >= 0, self.e < 128))): raise AssertionError("or operand out of model")
    return SymNum(self.e + 128, False)
SymNum.__or__ = _or
class SymBytes(list): pass
W.bytes = lambda xs: SymBytes(xs)      # namespace shim for the C-level bytes() constructor

def decide(signed):
    eng = Engine(); symx.ENG = eng
    v = z3.Int('v')
    pre = z3.And(v >= -2**31, v < 2**31) if signed else z3.And(v >= 0, v < 2**32)
    res = eng.explore(lambda: W.PackInteger(SymNum(v, False)), pre)
    s = z3.Solver()
    verdicts = []
    t=time.time()
    for pc,(k,out) in res:
        assert k == 'ok', (k,out)
        bs = [lift(b).e for b in out]
        n = len(bs)
        wf = z3.And(*[z3.And(b >= 0, b <= 255) for b in bs], *[b >= 128 for b in bs[:-1]], bs[-1] < 128)
        val = z3.Sum([(b % 128) * (128**i) for i,b in enumerate(bs)])
        if signed:
            val = z3.If((bs[-1] % 128) >= 64, val - 128**n, val)
        s.push(); s.add(pre, *pc, z3.Not(z3.And(wf, val == v)))
        r = s.check()
        verdicts.append((n, str(r), s.model()[v] if r == z3.sat else None))
        s.pop()
    return verdicts, time.time()-t, eng.nqueries
print("unsigned", decide(False))
print("signed", decide(True))
