from nsl import ast, types, Errors
from nsl.passes.ValidateSwizzle import ValidateSwizzleMaskVisitor

def spec_ok(mask: str, n: int) -> bool:
    for letters in ("xyzw", "rgba"):
        if all(c in letters[:n] for c in mask):
            return True
    return False

def chk(mask: str, n: int) -> bool:
    """
    pre: 1 <= len(mask) <= 2
    pre: 2 <= n <= 4
    post: _ == spec_ok(mask, n)
    """
    parent = ast.PrimaryExpression("v")
    parent.SetType(types.VectorType(types.Float(), n))
    e = ast.MemberAccessExpression(parent, ast.PrimaryExpression(mask))
    v = ValidateSwizzleMaskVisitor()
    h = Errors.ErrorHandler()
    v.SetErrorHandler(h)
    try:
        v.v_Visit(e, None)
    except Exception:
        return False
    return v.valid and h.errors == 0
