import io, contextlib
from nsl import parser
with contextlib.redirect_stdout(io.StringIO()), contextlib.redirect_stderr(io.StringIO()):
    P = parser.NslParser(parser.ParseEntryPoint.Expression)
for e in ["a - b - c", "a * b + c", "a + b * c", "a < b + c", "a + b < c", "(a - b) - c", "a = b + c", "a - b\n - c", "a == b && c", "x = a - b - c"]:
    print(repr(e), "->", str(P.Parse(e)))
