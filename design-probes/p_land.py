import io, contextlib, traceback
from nsl import Compiler, LinearIR, VM
def run(code, fn, opt=False, globals_=None, **args):
    out = io.StringIO()
    try:
        with contextlib.redirect_stdout(out), contextlib.redirect_stderr(out):
            r = Compiler.Compiler().Compile(code, {"optimize": opt})
        if r is None: return "REJECT(None) " + out.getvalue().strip().replace("\n"," | ")[:100]
        l = LinearIR.Linker(); l.AddModule(r.IRModule); p = l.Link()
        vm = VM.VirtualMachine(p)
        for k,v in (globals_ or {}).items(): vm.SetGlobal(k,v)
        return vm.Invoke(fn, **args)
    except SystemExit as e:
        return "SYSEXIT " + out.getvalue().strip()[:80]
    except BaseException as e:
        tb = traceback.extract_tb(e.__traceback__)[-1]
        return f"EXC {type(e).__name__}: {str(e)[:80]} @ {tb.filename.split('/')[-1]}:{tb.lineno}"
T = [
 ("int div", "export function f(int a, int b) -> int { return a / b; }", dict(a=7,b=2)),
 ("call then read arg", "function g(int v) -> int { return v + 1; } export function f(int a) -> int { int r = g(a); return r + a; }", dict(a=5)),
 ("call clobber", "function g(int v, int w) -> int { v = 100; return v; } export function f(int a, int b) -> int { int r = g(b, a); return a; }", dict(a=5,b=9)),
 ("recursion", "function fact(int n) -> int { if (n < 2) { return 1; } return (n * fact(n - 1)); } export function f(int a) -> int { return fact(a); }", dict(a=4)),
 ("do continue", "export function f(int n) -> int { int i = 0; int s = 0; do { i = i + 1; if (i == 2) { continue; } s = s + i; } while (i < n) return s; }", dict(n=4)),
 ("nested break/continue", "export function f(int n) -> int { int s = 0; for (int i = 0; i < n; ++i) { for (int j = 0; j < n; ++j) { if (j == 1) { continue; } if (j == 3) { break; } s = s + 1; } } return s; }", dict(n=5)),
 ("opt: store/load x2", "export function f(int a) -> int { int x = a; int y = x; return y; }", dict(a=3), True),
 ("opt: branch pred", "export function f(int a) -> int { int x = a; if (x) { return 1; } return 0; }", dict(a=3), True),
 ("opt: member", "struct s { int a; } export function f(int a) -> int { s t; t.a = a; return t.a; }", dict(a=3), True),
 ("opt: loop", "export function f(int n) -> int { int s = 0; for (int i = 0; i < n; ++i) { s = s + i; } return s; }", dict(n=4), True),
 ("swizzle read wzyx", "export function f(float4 p) -> float4 { return p.wzyx; }", dict(p=[1,2,3,4])),
 ("swizzle write xz", "export function f(float4 p, float2 q) -> float4 { p.zx = q; return p; }", dict(p=[1,2,3,4], q=[8,9])),
 ("swizzle bad letter", "export function f(float4 p) -> float { return p.q; }", dict(p=[1,2,3,4])),
 ("swizzle beyond size", "export function f(float2 p) -> float { return p.w; }", dict(p=[1,2])),
 ("swizzle mixed", "export function f(float4 p) -> float2 { return p.xg; }", dict(p=[1,2,3,4])),
 ("vec*vec", "export function f(float4 p, float4 q) -> float4 { return p * q; }", dict(p=[1,2,3,4], q=[1,2,3,4])),
 ("scalar*vec", "export function f(float4 p, float q) -> float4 { return q * p; }", dict(p=[1,2,3,4], q=2)),
 ("mat cmp", "export function f(float3x3 p, float3x3 q) -> int { return p == q; }", dict(p=[[1]*3]*3, q=[[1]*3]*3)),
 ("mat*vec", "export function f(float4x4 m, float4 v) -> float4 { return m * v; }", dict(m=[[1,0,0,0],[0,1,0,0],[0,0,1,0],[0,0,0,1]], v=[1,2,3,4])),
 ("int vec + float vec", "export function f(int4 p, float4 q) -> float4 { return p + q; }", dict(p=[1,2,3,4], q=[1,2,3,4])),
 ("mat default rows alias", "export function f(float x) -> float3x3 { float3x3 m; m[0][0] = x; return m; }", dict(x=5)),
 ("2d array alias", "export function f(int x) -> int { int[2][2] a; a[0][0] = x; return a[1][0]; }", dict(x=5)),
 ("const 0 and 0.0", "export function f(int a) -> float { int z = 0; float y = 0.0; return y + 1.5; }", dict(a=1)),
 ("const 1 vs 1.0", "export function f(float a) -> float { int i = 1; float y = 1.0; return a / y; }", dict(a=3.0)),
 ("break outside", "export function f(int a) -> int { break; return a; }", dict(a=1)),
 ("break in if outside", "export function f(int a) -> int { if (a) { break; } return a; }", dict(a=1)),
 ("shadow in block", "export function f(int a) -> int { int x = 1; { int x = 2; } return x; }", dict(a=1)),
 ("sibling reuse", "export function f(int a) -> int { { int x = 1; a = a + x; } { int x = 2; a = a + x; } return a; }", dict(a=1)),
 ("use after scope", "export function f(int a) -> int { { int x = 1; } return x; }", dict(a=1)),
 ("global shadow", "int g; export function f(int a) -> int { int g = 2; return g; }", dict(a=1)),
 ("float idx", "export function f(float4 p) -> float { return p[1.0]; }", dict(p=[1,2,3,4])),
 ("neg const idx", "export function f(float4 p) -> float { return p[-1]; }", dict(p=[1,2,3,4])),
 ("idx==size", "export function f(float4 p) -> float { return p[4]; }", dict(p=[1,2,3,4])),
 ("uint", "export function f(uint a, int b) -> int { return a + b; }", dict(a=3,b=-5)),
 ("a-1 nospace", "export function f(int a) -> int { return a -1; }", dict(a=3)),
 ("locals reinit in loop", "export function f(int n) -> int { int s = 0; for (int i = 0; i < n; ++i) { int t; t = t + 1; s = s + t; } return s; }", dict(n=3)),
 ("precedence", "export function f(int a, int b, int c) -> int { return a * b + c; }", dict(a=2,b=3,c=4)),
 ("assoc", "export function f(int a, int b, int c) -> int { return a - b - c; }", dict(a=10,b=3,c=2)),
 ("compound /=", "export function f(float a) -> float { a /= 2; return a; }", dict(a=3.0)),
 ("postfix --", "export function f(int a) -> int { int b = a--; return b * 10 + a; }", dict(a=3)),
 ("mutual recursion", "function ev(int n) -> int { if (n == 0) { return 1; } return od(n - 1); } function od(int n) -> int { if (n == 0) { return 0; } return ev(n - 1); } export function f(int a) -> int { return ev(a); }", dict(a=4)),
 ("overload -1+1", "function h(int a, float2 b) -> int { return 1; } function h(float a, float b) -> int { return 2; } export function f(int a, float b) -> int { return h(a, b); }", dict(a=1, b=2.0)),
 ("struct arg mutate", "struct s { int a; } function g(s v) -> int { v.a = 7; return 0; } export function f(int a) -> int { s t; t.a = a; g(t); return t.a; }", dict(a=3)),
 ("vector arg mutate in callee", "function g(float4 v) -> float { v[0] = 7; return v[0]; } export function f(float4 p) -> float4 { g(p); return p; }", dict(p=[1,2,3,4])),
]
for t in T:
    name, code, args = t[0], t[1], t[2]
    opt = t[3] if len(t) > 3 else False
    print(f"{name:28s} -> {run(code, 'f', opt, **args)}")
