import z3, io, contextlib, time
import symx
from symx import SymNum, Engine
import nsl.ast as A
from nsl import parser, types

# --- part 1: SourceMapping.__init__ through the public constructor with a len shim
class FakeLine:
    def __init__(self, n): self.n = n
class FakeText:
    def __init__(self, lens): self.lens = lens
    def split(self, sep):
        assert sep == "\n"
        return [FakeLine(n) for n in self.lens]
_len = len
A.len = lambda x: x.n if isinstance(x, FakeLine) else _len(x)

L = [z3.Int(f"L{i}") for i in range(3)]
o = z3.Int("o")
pre = z3.And(*[l >= 0 for l in L], o >= 0, o <= z3.Sum(L) + len(L) - 1)
eng = Engine(); symx.ENG = eng
def run():
    sm = A.SourceMapping(FakeText([SymNum(l, False) for l in L]))
    line = sm.GetLineFromOffset(SymNum(o, False))
    return line, sm.GetLineStartOffset(line)
res = eng.explore(run, pre)
starts = [z3.IntVal(0), L[0] + 1, L[0] + L[1] + 2]
s = z3.Solver(); v = []
for pc,(k,(line, start)) in res:
    spec_line = z3.Sum([z3.If(st <= o, 1, 0) for st in starts[1:]])
    spec_start = z3.If(spec_line == 0, starts[0], z3.If(spec_line == 1, starts[1], starts[2]))
    s.push(); s.add(pre, *pc, z3.Or(line != spec_line, symx.lift(start).e != spec_start)); v.append(str(s.check())); s.pop()
print("sourcemapping", len(res), "paths", v)

# --- part 4: parser actions with stub production and symbolic lexpos
with contextlib.redirect_stdout(io.StringIO()), contextlib.redirect_stderr(io.StringIO()):
    P = parser.NslParser()
    P.Parse("int x;")     # initialises the private source mapping
class StubProd:
    def __init__(self, syms, pos): self.s = [None] + syms; self.pos = [None] + pos
    def __getitem__(self, i): return self.s[i]
    def __setitem__(self, i, v): self.s[i] = v
    def __len__(self): return len(self.s)
    def lexpos(self, i): return self.pos[i]
p1, p2 = z3.Ints("p1 p2")
for name, syms, idpos in [("p_var_decl_1", [types.Integer(), "abc"], 2), ("p_unary_expression_3", ["++", "abc"], 2), ("p_unary_expression_4", ["abc", "++"], 1), ("p_unary_expression_1", ["abc"], 1)]:
    def run2():
        sp = StubProd(list(syms), [SymNum(p1, False), SymNum(p2, False)][:len(syms)])
        getattr(P, name)(sp)
        node = sp[0]
        # identifier node: the PrimaryExpression inside affix expressions
        if isinstance(node, A.AffixExpression): node = node.GetExpression()
        loc = node.GetLocation()
        return loc.GetBegin(), loc.GetEnd()
    res = eng.explore(run2, z3.And(p1 >= 0, p2 > p1 + 2))
    want_b = [p1, p2][idpos - 1]
    for pc,(k,out) in res:
        b, e = out
        s.push(); s.add(p1 >= 0, p2 > p1 + 2, *pc, z3.Or(symx.lift(b).e != want_b, symx.lift(e).e != want_b + 3))
        r = s.check(); print(name, r, s.model() if r == z3.sat else ""); s.pop()
