import z3, io, contextlib, time
import symx
from symx import SymNum, Engine
from nsl import ast, types
from nsl.passes.ValidateFlowStatements import ValidateFlowStatementVisitor as V

class Stub(ast.Statement):
    """leaf standing for an arbitrary sub-tree; records the context it is visited with"""
    def __init__(self): super().__init__(); self.seen = []
class Probe(V):
    def v_Stub(self, n, ctx): n.seen.append(ctx)

d = z3.Int('d')
def mk(kind):
    s1, s2 = Stub(), Stub()
    lit = ast.LiteralExpression(1, types.Integer())
    n = {
      'compound': lambda: ast.CompoundStatement([s1, s2]),
      'if': lambda: ast.IfStatement(lit, s1, s2),
      'for': lambda: ast.ForStatement(None, lit, ast.EmptyExpression(), s1),
      'while': lambda: ast.WhileStatement(lit, s1),
      'do': lambda: ast.DoStatement(lit, ast.CompoundStatement([s1])),
      'break': lambda: ast.BreakStatement(),
      'continue': lambda: ast.ContinueStatement(),
    }[kind]()
    return n, s1, s2
eng = Engine(); symx.ENG = eng
for kind in ['compound','if','for','while','do','break','continue']:
    def run():
        n, s1, s2 = mk(kind)
        v = Probe()
        try:
            v.v_Visit(n, SymNum(d, False))
            raised = False
        except Exception as e:
            raised = True
        return (raised, v.valid, s1.seen, s2.seen)
    res = eng.explore(run, d >= 0)
    for pc,(k,out) in res:
        print(kind, pc, out)
