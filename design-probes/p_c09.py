import z3, time
import symx
from symx import SymNum, Engine
from nsl import types, op, Errors

# concretising repr/format for this harness
def conc(self, spec=""):
    return format(self.__index__(), spec)
SymNum.__format__ = conc
SymNum.__repr__ = lambda self: conc(self)
SymNum.__str__ = lambda self: conc(self)

n1, n2, r, c = z3.Ints("n1 n2 r c")
rng = lambda x: z3.And(x >= 1, x <= 4)
eng = Engine(max_decisions=200); symx.ENG = eng
def describe(t):
    if t.IsScalar(): return ("S", type(t).__name__)
    if t.IsVector(): return ("V", type(t.GetComponentType()).__name__, t.GetComponentCount())
    return ("M", type(t.GetComponentType()).__name__, t.GetRowCount(), t.GetColumnCount())
cases = {
 "mat*vec": (op.Operation.MUL, lambda: types.MatrixType(types.Float(), SymNum(r,False), SymNum(c,False)), lambda: types.VectorType(types.Integer(), SymNum(n1,False)), z3.And(rng(r),rng(c),rng(n1))),
 "vec+vec": (op.Operation.ADD, lambda: types.VectorType(types.Float(), SymNum(n1,False)), lambda: types.VectorType(types.Integer(), SymNum(n2,False)), z3.And(rng(n1),rng(n2))),
 "vec<vec": (op.Operation.CMP_LT, lambda: types.VectorType(types.Float(), SymNum(n1,False)), lambda: types.VectorType(types.Integer(), SymNum(n2,False)), z3.And(rng(n1),rng(n2))),
 "scalar<vec": (op.Operation.CMP_LT, lambda: types.Float(), lambda: types.VectorType(types.Integer(), SymNum(n2,False)), rng(n2)),
}
for name,(o,L,R,pre) in cases.items():
    def run():
        try:
            et = types.ResolveBinaryExpressionType(o, L(), R())
            return ("ok", describe(et.GetReturnType()), describe(et.GetOperandType(0)), describe(et.GetOperandType(1)))
        except Errors.CompileException as e:
            return ("reject", e.message.code)
    t=time.time()
    res = eng.explore(run, pre)
    print(name, len(res), "paths", round(time.time()-t,3))
    for pc,(k,out) in res[:4]:
        print("   ", k, out if k=='ok' else repr(out), z3.simplify(z3.And(*pc)) if pc else "")
