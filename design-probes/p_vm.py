import sys, time, io, contextlib
import z3, symx
from nsl import Compiler, LinearIR, VM
VM.float = symx.sym_float   # namespace shim: builtin float() cannot return proxies

def compile_(code, opt=False):
    with contextlib.redirect_stdout(io.StringIO()):
        r = Compiler.Compiler().Compile(code, {"optimize": opt})
    l = LinearIR.Linker(); l.AddModule(r.IRModule); return l.Link()

code = """export function f(int l, int a) -> int {
        int result = 0;
        for (int i = 0; i < l; ++i) {
            if ((i % 2) == 0) { continue; }
            result += i * a;
            if (result > 10) { break; }
        }
        return result;
    }"""
prog = compile_(code)
eng = symx.Engine(); symx.ENG = eng
l = z3.Int('l'); a = z3.Int('a')
def run():
    vm = VM.VirtualMachine(prog)
    return vm.Invoke("f", l=symx.SymNum(l, False), a=symx.SymNum(a, False))
t=time.time()
res = eng.explore(run, pre=z3.And(l>=0, l<=5, a>=-100, a<=100))
print(len(res), "paths", time.time()-t, "s; queries", eng.nqueries, "solver", eng.solver_time)
for pc,out in res[:6]:
    print(out, z3.simplify(z3.And(pc)) if pc else True)
