"""Probe: minimal dynamic symbolic executor (proxy values + z3, DFS by re-execution)."""
import z3, time, math

class Abort(BaseException): pass

class Engine:
    def __init__(self, max_decisions=64):
        self.solver = z3.Solver()
        self.max_decisions = max_decisions
        self.nqueries = 0
        self.solver_time = 0.0
    def check(self, *extra):
        t=time.time(); self.nqueries += 1
        r = self.solver.check(*extra)
        self.solver_time += time.time()-t
        return r
    def branch(self, cond):
        """cond: z3 Bool. returns python bool, records decision."""
        cond = z3.simplify(cond)
        if z3.is_true(cond): return True
        if z3.is_false(cond): return False
        if self.pos < len(self.prefix):
            d = self.prefix[self.pos]
            self.pos += 1
            self.solver.add(cond if d else z3.Not(cond))
            self.pc.append(cond if d else z3.Not(cond))
            return d
        if self.pos >= self.max_decisions:
            self.cut = True
            raise Abort()
        # new decision: check feasibility both ways
        can_t = self.check(cond) == z3.sat
        can_f = self.check(z3.Not(cond)) == z3.sat
        if can_t and can_f:
            self.todo.append(self.prefix[:self.pos] + [False])
            d = True
        elif can_t: d = True
        elif can_f: d = False
        else: raise Abort()
        self.prefix.append(d); self.pos += 1
        self.solver.add(cond if d else z3.Not(cond))
        self.pc.append(cond if d else z3.Not(cond))
        return d
    def explore(self, fn, pre=None):
        self.todo = [[]]
        results = []
        while self.todo:
            self.prefix = self.todo.pop(); self.pos = 0; self.pc = []; self.cut=False
            self.solver.push()
            if pre is not None: self.solver.add(pre)
            try:
                try:
                    out = ('ok', fn())
                except Abort:
                    out = ('cut', None)
                except Exception as e:
                    out = ('exc', e)
                results.append((list(self.pc), out))
            finally:
                self.solver.pop()
        return results

ENG = None

def lift(x):
    if isinstance(x, SymNum): return x
    if isinstance(x, bool): return SymNum(z3.IntVal(int(x)), False)
    if isinstance(x, int): return SymNum(z3.IntVal(x), False)
    if isinstance(x, float): 
        return SymNum(z3.RealVal(repr(x)), True)
    raise TypeError(type(x))

class SymBool:
    def __init__(self, e): self.e = e
    def __bool__(self): return ENG.branch(self.e)

class SymNum:
    """int (z3 Int) or float (z3 Real abstraction)."""
    __slots__=('e','isf')
    def __init__(self, e, isf): self.e=e; self.isf=isf
    def _bin(self, o, f, forcef=False):
        o = lift(o)
        isf = self.isf or o.isf or forcef
        a = z3.ToReal(self.e) if isf and not self.isf else self.e
        b = z3.ToReal(o.e) if isf and not o.isf else o.e
        return a,b,isf
    def __add__(self,o): a,b,f=self._bin(o,None); return SymNum(a+b,f)
    def __radd__(self,o): return lift(o).__add__(self)
    def __sub__(self,o): a,b,f=self._bin(o,None); return SymNum(a-b,f)
    def __rsub__(self,o): return lift(o).__sub__(self)
    def __mul__(self,o): a,b,f=self._bin(o,None); return SymNum(a*b,f)
    def __rmul__(self,o): return lift(o).__mul__(self)
    def __truediv__(self,o):
        o=lift(o)
        if ENG.branch(o.e == 0): raise ZeroDivisionError()
        a,b,f=self._bin(o,None,True); return SymNum(a/b,True)
    def __rtruediv__(self,o): return lift(o).__truediv__(self)
    def __mod__(self,o):
        o=lift(o)
        if ENG.branch(o.e == 0): raise ZeroDivisionError()
        assert not self.isf and not o.isf
        # python floor mod
        m = self.e % o.e  # z3 mod: euclidean, result >=0
        return SymNum(z3.If(z3.And(o.e<0, m!=0), m+o.e, m), False)
    def _cmp(self,o,f):
        a,b,_=self._bin(o,None); return SymBool(f(a,b))
    def __lt__(self,o): return self._cmp(o, lambda a,b:a<b)
    def __le__(self,o): return self._cmp(o, lambda a,b:a<=b)
    def __gt__(self,o): return self._cmp(o, lambda a,b:a>b)
    def __ge__(self,o): return self._cmp(o, lambda a,b:a>=b)
    def __eq__(self,o): return self._cmp(o, lambda a,b:a==b)
    def __ne__(self,o): return self._cmp(o, lambda a,b:a!=b)
    __hash__ = None
    def __bool__(self): return ENG.branch(self.e != 0)
    def __index__(self):
        assert not self.isf
        # concretize: fork over feasible values
        while True:
            if ENG.check() != z3.sat: raise Abort()
            v = ENG.solver.model().eval(self.e, model_completion=True).as_long()
            if ENG.branch(self.e == v): return v
    def __floor__(self):
        return SymNum(z3.ToInt(self.e), False) if self.isf else self
    def __deepcopy__(self, memo): return self
    def __repr__(self): return f"Sym({self.e})"

def sym_float(x):
    if isinstance(x, SymNum):
        return x if x.isf else SymNum(z3.ToReal(x.e), True)
    return float(x)
