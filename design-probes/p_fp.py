import z3, time
F = z3.Float64()
rm = z3.RNE()
a,b,c = z3.FPs('a b c', F)
def fin(*xs): return z3.And([z3.Not(z3.Or(z3.fpIsNaN(x), z3.fpIsInf(x))) for x in xs])
qs = {
 '(a+b)+c vs a+(b+c)': (z3.fpAdd(rm, z3.fpAdd(rm,a,b), c), z3.fpAdd(rm, a, z3.fpAdd(rm,b,c))),
 '(a+b)-c vs a+(b-c)': (z3.fpSub(rm, z3.fpAdd(rm,a,b), c), z3.fpAdd(rm, a, z3.fpSub(rm,b,c))),
 '(a*b)*c vs a*(b*c)': (z3.fpMul(rm, z3.fpMul(rm,a,b), c), z3.fpMul(rm, a, z3.fpMul(rm,b,c))),
 '(a*b)/c vs a*(b/c)': (z3.fpDiv(rm, z3.fpMul(rm,a,b), c), z3.fpMul(rm, a, z3.fpDiv(rm,b,c))),
 '(a+b) vs (b+a) [expect unsat]': (z3.fpAdd(rm,a,b), z3.fpAdd(rm,b,a)),
}
for name,(l,r) in qs.items():
    s = z3.Solver(); s.set('timeout', 60000)
    s.add(fin(a,b,c), fin(l,r), z3.Not(z3.fpEQ(l,r)))
    t=time.time(); res = s.check(); dt=time.time()-t
    print(name, res, round(dt,2), [s.model()[x] for x in (a,b,c)] if res==z3.sat else '')
