from typing import List
from nsl.WebAssembly import PackInteger

def uleb_decode(bs) -> int:
    r = 0
    shift = 0
    for b in bs:
        r |= (b & 0x7F) << shift
        shift += 7
        if not (b & 0x80):
            break
    return r

def sleb_decode(bs) -> int:
    r = 0
    shift = 0
    last = 0
    for b in bs:
        r |= (b & 0x7F) << shift
        shift += 7
        last = b
        if not (b & 0x80):
            break
    if last & 0x40:
        r -= (1 << shift)
    return r

def chk_unsigned(v: int) -> int:
    """
    pre: 0 <= v < 2**32
    post: _ == v
    """
    return uleb_decode(PackInteger(v))

def chk_signed(v: int) -> int:
    """
    pre: -2**31 <= v < 2**31
    post: _ == v
    """
    return sleb_decode(PackInteger(v))
