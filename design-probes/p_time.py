import io, contextlib, time
from nsl import Compiler
code = """export function f(int l, int a) -> int { int r = 0; for (int i = 0; i < l; ++i) { r += i * a; } return r; }"""
t=time.time()
for i in range(20):
    with contextlib.redirect_stdout(io.StringIO()), contextlib.redirect_stderr(io.StringIO()):
        c = Compiler.Compiler()
        r = c.Compile(code)
print("per compile (new Compiler)", (time.time()-t)/20)
