import z3, time, math, bisect
import symx
from symx import SymNum, SymBool, Engine

# ---- C20: SourceMapping lookup with symbolic line offsets, via C bisect
from nsl.ast import SourceMapping, Location
eng = Engine(); symx.ENG = eng
N=4
offs = [z3.Int(f'o{i}') for i in range(N)]
off = z3.Int('off')
pre = z3.And(offs[0]==0, *[offs[i]<offs[i+1] for i in range(N-1)], off>=0)
def run():
    sm = SourceMapping.__new__(SourceMapping)
    sm._SourceMapping__lineOffsets = [SymNum(o, False) for o in offs]
    sm._SourceMapping__sourceName = "x"
    line = sm.GetLineFromOffset(SymNum(off, False))
    return line
t=time.time()
res = eng.explore(run, pre)
print("bisect paths", len(res), time.time()-t)
# spec: line = number of i>=1 with offs[i] <= off
spec = z3.Sum([z3.If(offs[i] <= off, 1, 0) for i in range(1,N)])
s = z3.Solver()
bad = []
for pc,(k,out) in res:
    o = out.e if isinstance(out, SymNum) else z3.IntVal(out)
    s.push(); s.add(pre, *pc, o != spec); r = s.check(); s.pop()
    bad.append(str(r))
print("verdicts", bad)

# ---- format placeholder trick
class P(SymNum):
    pass
TOK = {}
def fmt(self, spec):
    k = f"⟦{len(TOK)}⟧"; TOK[k] = self; return k
SymNum.__format__ = fmt
SymNum.__str__ = lambda self: fmt(self, "")
b,e = z3.Ints('b e')
def run2():
    sm = SourceMapping.__new__(SourceMapping)
    sm._SourceMapping__lineOffsets = [SymNum(o, False) for o in offs]
    loc = Location((SymNum(b,False), SymNum(e,False)), sm)
    return str(loc)
res = eng.explore(run2, z3.And(pre, b>=0, e>=b))
print("str paths", len(res), res[0][1], res[-1][1])

# ---- C12: dict keyed by symbolic names with constant hash
class SymName:
    def __init__(self, e): self.e=e
    def __hash__(self): return 0
    def __eq__(self, o): return SymBool(self.e == o.e) if isinstance(o, SymName) else False
from nsl.passes.ValidateVariableNames import ValidateVariableNamesVisitor as V
n1,n2,n3 = z3.Ints('n1 n2 n3')
def run3():
    root = V.Context()
    root.Add(SymName(n1), "L1")
    inner = V.Context(root)
    inner.Add(SymName(n2), "L2")
    try:
        inner.Add(SymName(n3), "L3")
        return "accepted"
    except Exception as ex:
        return "rejected"
res = eng.explore(run3, z3.And(n1!=n2))
for pc,out in res: print(out, pc)
