import z3, io, contextlib, time
import symx
from symx import SymNum, Engine, lift
exec(open('p_leb.py').read().split("def decide")[0].split("import nsl.WebAssembly as W")[1], globals() | {"W": __import__("nsl.WebAssembly").WebAssembly})
import nsl.WebAssembly as W
from nsl import Compiler, LinearIR
from nsl.passes import GenerateWasm

class ShimBuf:
    def __init__(self): self.data = []
    def write(self, b): self.data.extend(list(b))
    def getbuffer(self): return self.data
class ShimIO:
    BytesIO = ShimBuf
W.io = ShimIO
W.bytes = lambda xs: list(xs)

code = "export function f(int a) -> int { return (a + 77) * 5; }"
with contextlib.redirect_stdout(io.StringIO()):
    r = Compiler.Compiler().Compile(code)
fn = r.IRModule.Functions["f"]
consts = list(fn.Constants)
print([ (c.Reference, c.Value) for c in consts])
K = [z3.Int(f"K{i}") for i in range(len(consts))]
def run():
    for c,k in zip(consts, K):
        c._ConstantValue__value = SymNum(k, False)
    p = GenerateWasm.GetPass()
    with contextlib.redirect_stdout(io.StringIO()):
        p.Process(r.IRModule)
    m = p.Visitor.Finalize()
    out = ShimBuf()
    m.WriteTo(out)
    return out.data
eng = Engine(); symx.ENG = eng
pre = z3.And(*[z3.And(k >= 0, k < 2**31) for k in K])
t = time.time()
res = eng.explore(run, pre)
print(len(res), "paths", round(time.time()-t,3))
for pc,(k,out) in res[:3]:
    print(k, out if k!='ok' else [x if isinstance(x,int) else '?' for x in out])
