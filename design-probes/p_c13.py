import z3, io, contextlib, time
import symx
from symx import SymNum, Engine
from nsl import parser, types, ast
from nsl.passes import ComputeTypes, ValidateArrayOutOfBoundsAccess, ValidateArrayAccessType, UpdateLocations, RewriteAssignEqualOperations

with contextlib.redirect_stdout(io.StringIO()), contextlib.redirect_stderr(io.StringIO()):
    P = parser.NslParser()

SRC = "export function f() -> int { int[2][3] a; return a[1][2]; }"
S0,S1,K0,K1 = z3.Ints('S0 S1 K0 K1')

def find(node, cls, acc):
    if isinstance(node, cls): acc.append(node)
    def f(c, ctx): find(c, cls, acc)
    node.ForEachChild(f)
    return acc

def run():
    with contextlib.redirect_stdout(io.StringIO()):
        tree = P.Parse(SRC)
        # substitute symbolic sizes and literal indices
        decl = find(tree, ast.VariableDeclaration, [])[0]
        decl._VariableDeclaration__type = types.ArrayType(types.Integer(), [SymNum(S0,False), SymNum(S1,False)])
        lits = [l for l in find(tree, ast.LiteralExpression, [])]
        arrs = find(tree, ast.ArrayExpression, [])
        outer = arrs[0]; inner = outer.GetParent()
        inner.GetExpression().value = SymNum(K0, False)
        outer.GetExpression().value = SymNum(K1, False)
        for gp in (ComputeTypes.GetPass(), ValidateArrayAccessType.GetPass(), ValidateArrayOutOfBoundsAccess.GetPass()):
            try:
                ok = gp.Process(tree, output=io.StringIO())
            except Exception as e:
                return ('reject-raise', type(e).__name__)
            if not ok: return ('reject', gp.Name)
        return ('accept',)
eng = Engine(); symx.ENG = eng
pre = z3.And(S0>0, S1>0)
t=time.time()
res = eng.explore(run, pre)
print(len(res), "paths", round(time.time()-t,2))
spec_accept = z3.And(K0>=0, K0<S0, K1>=0, K1<S1)
s = z3.Solver()
for pc,(k,out) in res:
    acc = (out == ('accept',))
    s.push(); s.add(pre, *pc, spec_accept != acc)
    r = s.check()
    print(k, out, r, s.model() if r==z3.sat else '')
    s.pop()
