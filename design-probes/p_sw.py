from nsl.passes.ValidateSwizzle import ValidateSwizzleMask

def spec_ok(mask: str) -> bool:
    a = all(c in "xyzw" for c in mask)
    b = all(c in "rgba" for c in mask)
    return a or b

def chk(mask: str) -> bool:
    """
    pre: 1 <= len(mask) <= 3
    post: _ == spec_ok(mask)
    """
    try:
        ValidateSwizzleMask(mask)
        return True
    except Exception:
        return False
